SPEC = dict(
    claimed=True,
    title='Stored characterisation is reused; fans are analysed once',
    props_file='Props/C15.v', props_mod='Props.C15',
    proof_files=['Proofs/Startup.v', 'Drv/Startup.v'],
    tie_vo=['Proofs/LeafTie2_applyPwmMapping.vo'],
    # the persistence of the `fan init` / `fan reset` cobra commands is passed through a (by default identity) wrapper,
    # so that their Save/Load/Delete calls appear in the same log as the controllers'
    rewrites=[('cmd/fan/init.go', [(r'p := persistence\.NewPersistence\(dbPath\)', 'p := persistence.VerifWrap(persistence.NewPersistence(dbPath))')], None),
              ('cmd/fan/reset.go', [(r'p := persistence\.NewPersistence\(dbPath\)', 'p := persistence.VerifWrap(persistence.NewPersistence(dbPath))')], None)],
    drivers=[dict(name='startup', drv_mod='Drv.Startup', drv_file='Drv/Startup.v', shard=30,
                  args={'quick': ['n=100', 'nc=10', 'ncli=6'], 'thorough': ['n=1500', 'nc=80', 'ncli=40']}, timeout={'quick': 600, 'thorough': 3000})],
    rule='systematic grid (fan kind hwmon/file/cmd x PWM readable x RPM sensor x configured pwmMap x configured minPwm+maxPwm '
         'x stored state none/data/map/both; each: start, stop, start [, reset|init, start]) plus seeded random fleets of 1..3 fans '
         'sharing one bbolt file with random device responses (identity, quantiser, floor, three levels), random stored state and '
         'random start/stop/reset/init sequences ending in a restart. About half of the hwmon fans with an RPM input are bound the way the daemon binds them: a chip directory in a sysfs-like tree (gosensors stand-in, VERIF_HWMON_ROOT), hwmon.GetChips + UpdateFanConfigFromHwMonControllers(platform, index) at EVERY start, and between two starts of a history the chip directory is renumbered (hwmonN -> hwmonN+1) and another chip appears before it in the enumeration. Plus CLI-driven histories (file fans): fan2go.yaml in one directory, working directory in another, dbPath written as a RELATIVE or an absolute path; `fan init` and `fan reset` are the REAL cobra commands of cmd/fan (their persistence passes through an identity wrapper so its calls are logged), a start does what the daemon does (file loaded through viper, fans.NewFan from the loaded entry, persistence.NewPersistence(loaded dbPath), Run). Plus concurrent scenarios: K = 2..6 already analysed fans (RPM data + PWM map stored, hwmon/file mixed) whose real Run() are launched together on ONE bbolt file, half of them while a second user of the file (bolt.Open on the same path, 50..300 ms at a time) holds it during start-up; expectation per fan = C15_reuse (no Sweep, no MeasureRpm, no error), compared through the same case shape (one Start per fan). Each start = the real DefaultFanController.Run on real '
         'HwMonFan/FileFan/CmdFan objects until the first curve evaluation; observed: every PWM write (sweep = 256 consecutive writes '
         '255..0), every RPM read before the first regulation cycle (= RPM-curve measurement; the RPM monitor is parked), every '
         'persistence call, the controller\'s final pwmMap and the stored entries after each command. '
         'Non-trivial = at least two starts in the sequence; distinct = distinct case terms.',
    assumptions=['device_answers: device reads/writes succeed (except an unreadable PWM value, which is a capability) and the device response is idempotent',
                 'db_answers: bbolt operations succeed and return what was stored (C14 covers the persistence layer)',
                 'the contents of the RPM curve are not modelled (stored or not); waitForFanToSettle terminates',
                 'MeasureRpm is observed as an RPM read before the first regulation cycle with the RPM monitor parked (rpmPollingRate = 1h)'],
    trusted_base=['C15 theorems are axiom-free (Print Assumptions: closed under the global context)',
                  'hand-written model Model/Startup.v of Run prelude / RunInitializationSequence / computePwmMap / fan reset / fan init; '
                  'agreement with the code observed on the generated command sequences, not proved',
                  'fan init / fan reset are exercised through the persistence and controller calls the cobra commands make, not through cobra'],
    partial='',
    finding_codes={}, finding_text={},
    level_text='C15_reuse / C15_cfg_map / C15_minmax hold for every fan kind, capability set, configuration, device response and stored state; '
               'C15_history holds for every fleet, initial database and command sequence of any length (invariant "settled" preserved by every '
               'command other than reset/init of that fan). The model is tied to the code by running the real Run / RunInitializationSequence / '
               'persistence on fake fans over command sequences and comparing the classified action trace, the final PWM map and the stored '
               'entries after every command; the verified observer holdsb (= Holds, lemma holdsb_spec) judges the implementation\'s own trace.',
    level_note='trusted: Coq kernel; hand-written start-up model; agreement observed on generated sequences; device/db answer',
    design_ref='DESIGN.md section 5 C15',
)
