SPEC = dict(
    claimed=True,
    title='With parallel initialisation disabled, fans are analysed one at a time',
    props_file='Props/C16.v', props_mod='Props.C16',
    proof_files=['Proofs/Sched.v', 'Drv/ParInit.v'],
    tie_vo=['Proofs/LeafTie2_applyPwmMapping.vo'],
    # timers of controller.go run on the scaled time base of its (rewritten) sleeps; restorePwmEnabled is bracketed by
    # markers so that the writes that hand a fan back are not taken for analysis writes
    rewrites=[('internal/controller/controller.go',
               [(r'\btime\.After\(', 'util.VerifAfter('),
                (r'\btime\.NewTimer\(', 'util.VerifNewTimer('),
                (r'\btime\.AfterFunc\(', 'util.VerifAfterFunc('),
                (r'(func \(f \*DefaultFanController\) restorePwmEnabled\(\) \{)',
                 r'\1\n\tutil.VerifMark("restore-begin", f.fan.GetId())\n\tdefer util.VerifMark("restore-end", f.fan.GetId())')],
               None)],
    extra_driver_files=['startup'],      # the fake-fan environment lives in drv_startup.go
    drivers=[dict(name='parinit', drv_mod='Drv.ParInit', drv_file='Drv/ParInit.v', shard=40,
                  args={'quick': ['n=24', 'nfresh=5'], 'thorough': ['n=240', 'nfresh=40']}, timeout={'quick': 600, 'thorough': 3000})],
    rule='2..4 real DefaultFanController.Run started concurrently (one goroutine each, one shared bbolt file) on fake fans that all need '
         'analysis (hwmon: sweep + RPM measurement; some with only the RPM curve missing; some file fans sweeping inside Run; some fans with a configured pwmMap, sparse or dense, which skip the sweep but still measure their RPM curve), quantising '
         'devices with 4..8 levels, settle times 0/1.5/3/6 s, start delays 0..4 s (configured times scaled 1/200 in real time), '
         'The option and every other top-level setting of the start-up path (dbPath, fanResponseDelay, maxRpmDiffForSettledFan, rpm/temp window sizes and rates) arrive through the REAL loader: the driver writes a fan2go.yaml (explicit `runFanInitializationInParallel: false` in two thirds of the cases, explicit true or absent otherwise), then viper.Reset, InitConfig, DetectAndReadConfigFile, LoadConfig, Validate as the daemon does, and never assigns configuration.CurrentConfig; the persistence of the controllers is built from the loaded dbPath (a real bbolt file in a writable directory). The expectation given to the model is what the FILE says (false => exclusive; true/absent => parallel allowed). Plus simultaneous VERY FIRST analyses: trials of 3..4 fans whose RunInitializationSequence (what `fan init` does: delete both entries, run the sequence on a fresh controller, real persistence) are released at the same instant by a spin barrier, each trial in a FRESH process (the driver re-executes its own binary), judged with the init_cmd programs of the model (case field c_init). Every second sequential case is special: (1) the analysis of the first fan FAILS midway (injected PWM write error in the measurement loop, or RPM read error at the third level) while 2..3 others are queued; (2) an already analysed fan fails in its control loop right after start (curve error -> restorePwmEnabled) while the next fan is analysed and others wait; (3) one slow-settling fan (30..60 s) with fanResponseDelay 0 or 1. (4) shutdown: the contexts of all controllers are cancelled while the first fan is analysed (during its sweep, its settle phase or its RPM measurement) and 1..2 others are queued behind it; intervals are judged up to the moment every Run has returned; these starts are not compared with the model (c_faulty). Timers created by controller.go (time.After/NewTimer/AfterFunc) run on the same scaled time base as its sleeps. Observed per fan: the classified start-up actions and the interval '
         '[first PWM/mode write or RPM read, last device access or map/data save] before its first regulation cycle -- for a controller whose Run returned without regulating: up to the END of the run, i.e. including accesses by goroutines that outlive RunInitializationSequence; accesses made inside restorePwmEnabled (bracketed by build-time markers) are not analysis -- in the order of a global '
         'sequence-numbered log. Non-trivial = at least two fans analysed; distinct = distinct case terms.',
    assumptions=['sync.Mutex provides mutual exclusion and Lock/Unlock order the log entries made inside the critical sections (Go memory model)',
                 'a thread program is the projection of the start-up model\'s action list: Lock/Unlock = where the code takes/releases '
                 'InitializationSequenceMutex, Sweep/MeasureRpm = analysis phases (agreement of the action lists with the code is observed by drivers startup and parinit)',
                 'device_answers / db_answers as for C15; fans with an injected device fault (c_faulty) are outside it: their action lists are not compared with the model, their analysis intervals are judged like all others'],
    trusted_base=['C16 theorems are axiom-free (Print Assumptions: closed under the global context)',
                  'hand-written models Model/Startup.v (where the mutex is held relative to sweep and measurement) and Model/Sched.v '
                  '(interleaving semantics: atomic steps, Acquire blocks while the lock is held)',
                  'real concurrency is sampled by the harness (goroutine schedules of the Go runtime), not enumerated'],
    partial='',
    finding_codes={}, finding_text={},
    level_text='C16_exclusive: for every number of controllers, every fan kind/capabilities/configuration/stored state and every schedule, '
               'at most one thread is inside an analysis phase when runFanInitializationInParallel = false (invariant: inside analysis -> holds the '
               'lock; at most one holder; induction on the schedule); C16_parallel_overlaps exhibits an overlapping schedule for parallel = true. '
               'The programs are derived from the start-up model, whose lock placement is tied to the code by running 2..4 real controllers '
               'concurrently and checking the observed per-fan analysis intervals with the verified observer (pdb = pairwise disjointness).',
    level_note='trusted: Coq kernel; hand-written start-up and scheduler models; sync.Mutex semantics; sampled goroutine schedules',
    design_ref='DESIGN.md section 5 C16',
)
