SPEC = dict(
    claimed=True,
    title='hwmon entries bind to the device the user named, or fail cleanly',
    props_file='Props/C17.v', props_mod='Props.C17',
    proof_files=['Proofs/Hwmon.v', 'Drv/Hwmon.v'],
    tie_vo=[],
    drivers=[dict(name='hwmon', drv_mod='Drv.Hwmon', drv_file='Drv/Hwmon.v', shard=150,
                  args={'quick': [], 'thorough': []}, timeout={'quick': 600, 'thorough': 3000})],
    rule='seeded fake hwmon trees under the gosensors stand-in: 1..4 chips (names from a pool of 10, hostile stream: duplicate names), '
         'each with fan features on an arbitrary channel subset of 1..9 (hostile: 1..12), some without fanN_input, pwmN/pwmN_enable present or not, '
         'temperature features on arbitrary indices, some without tempN_input, chips with no usable feature; every tree is run in its '
         'generated enumeration order and in 1 (thorough: 3) seeded permutations of it through the stub\'s `order` file. Entries: 0..2 hwmon '
         'sensors and 0..3 hwmon fans; platform patterns: exact name, random case flips, anchored, with -isa- suffix regex, wildcard character, '
         'unknown platform, patterns matching several chips (nct, isa, .*, empty), patterns that do not compile; fan selector by index or by '
         'rpmChannel, existing or not, pwmChannel defaulted / another existing channel / arbitrary; sensor index existing, just past the end, '
         'the file number instead of the ordinal; hostile stream adds neither/both selectors, negative index/pwmChannel, index <= 0. '
         'Every third tree additionally gets a chip with NO fan and NO temperature input (empty directory without a name file / only a name file / only *_label, in0_*, power1_* files; with 4 chips one of the generated chips is stripped instead, so entries may name it), run with that chip enumerated first, last and between the others; chips whose features all lack an input occur in the ordinary stream too. hwmon.GetChips, InitializeObjects, RunDaemon and the registry read-back each run under recover per case: a panic (or a nil controller dereferenced by the binding code) is the observation OCrash, which the model never produces and the observer rejects, and the driver continues. Device file CONTENT at discovery time varies: a third of the tempN_input files read 0 / negative / empty / garbage / are unreadable (a directory: EISDIR), a quarter of the fanN_input files (and their pwmN) read 0 / empty / garbage / unreadable, at arbitrary positions relative to the selected device; the model is unchanged (position and channel depend on file presence only). Half of the structured cases aim every entry at an existing device (successful start-up). The first 12 (thorough: 100) failing '
         'start-ups are additionally pushed through internal.RunDaemon in-process (ui.Fatal vs runtime error). '
         'Non-trivial = at least two chips and at least one entry; distinct = distinct Coq case terms.',
    assumptions=['regexp oracle: valid p = regexp.Compile("(?i)"+p) succeeds, matches p platform = regexp.MatchString("(?i)"+p, platform); '
                 'Section variables of Model/Hwmon.v, instantiated per case with the table produced by the real regexp package on the '
                 'platform strings the real GetChips computed',
                 'every error message of the berr classes contains the configured entry ID (names_entry); checked on every failing case by '
                 'searching the real error text for each configured ID',
                 'feature enumeration order inside a chip (fans by increasing channel, temps by increasing index) is the stand-in\'s, '
                 'following libsensors'],
    trusted_base=['all C17 theorems are axiom-free (Print Assumptions: Closed under the global context)',
                  'hand-written model of GetChips/GetFans/GetTempSensors/UpdateFanConfigFromHwMonControllers/setFanConfigPaths/'
                  'initializeSensors/initializeFans/InitializeObjects; agreement with the code observed on the generated cases',
                  'the gosensors stand-in replaces cgo libsensors: discovery is checked against sysfs-like trees, not real hardware',
                  'driver canonicalisation: sysfs paths are parsed back to (chip directory, file kind, number); error text to a 5-value class '
                  'and the set of configured IDs it contains',
                  'cmd/sensor/sensor.go getSensor (fan2go sensor CLI) is modelled (bind_sensor_cli) but not driven and not covered by a theorem'],
    partial='',
    finding_codes={1: 'D17'},
    finding_text={'D17': 'a hwmon sensor index missing on the matched chip dereferences a nil map entry in initializeSensors (runtime error at start-up)'},
    level_text='Machine-checked (axiom-free) theorems over the executable model of hwmon discovery and binding: for every chip list, selector and regexp '
               'oracle, a unique matching chip with the selected device yields exactly that device with the RPM path from the rpm channel and the '
               'PWM/enable paths from the pwm channel (default: the rpm channel); the result is invariant under permutation of the chips; when no '
               'matching chip has the device the result is an error naming the entry; a successful binding is always a selected device of a matching '
               'chip; no runtime error is possible (sensors: after the D17 repair; the pre-repair model is refuted by a witness). '
               'C17_init_objects lifts this to whole InitializeObjects runs and C17_observer_exact ties the boolean observer used on the '
               'implementation to the proposition. The model is tied to the Go code by a differential run of the real internal.InitializeObjects '
               '(and, for failing start-ups, internal.RunDaemon) on generated fake hwmon trees in permuted enumeration orders.',
    level_note='trusted: Coq kernel; hand-written model, agreement observed on generated cases; regexp as an oracle table from the real package; gosensors stand-in instead of libsensors',
    design_ref='DESIGN.md section 5 C17',
)
