SPEC = dict(
    claimed=True,
    title='Only root-controlled executables are ever run',
    props_file='Props/C18.v', props_mod='Props.C18',
    props_extra=[('Props/C18Link.v', 'Props.C18Link')],
    proof_files=['Proofs/ExecPerm.v', 'Proofs/ExecLinks.v', 'Drv/Perm.v'],
    tie_vo=['Proofs/LeafTie2_CheckFilePermissions.vo'],
    drivers=[dict(name='perm', drv_mod='Drv.Perm', drv_file='Drv/Perm.v', shard=700,
                  args={'quick': ['flips=400'], 'thorough': ['flips=6000']},
                  timeout={'quick': 600, 'thorough': 3000})],
    # os.Stat(file) in CheckFilePermissionsForExecution -> util.VerifStat (identity unless a driver registers an
    # action for that path; used by driver `exec` to make the check/start window deterministic)
    rewrites=[('internal/util/file.go', [(r'\bos\.Stat\(file\)', 'VerifStat(file)')], None)],
    rule='as root, real files in a fresh directory per case. Exhaustive in both tiers: owner x group in {0,4242}^2 x all 512 '
         'modes x {direct, via symlink} through util.SafeCmdExecution (4096 cases) and the same grid on a configuration file '
         'with a cmd sensor through configuration.Validate (4096 cases; configuration decoded once per variant by the real '
         'viper loader). CmdSensor.GetValue / CmdFan.GetPwm/SetPwm/GetRpm and six configuration variants (cmd fan, both, none, '
         'cmd + fan error, cmd + early error, none + fan error) on 23 representative modes; setuid/setgid/sticky modes; '
         'missing file, dangling link, link loops, link chains of 1..299 (kernel limit 40, EvalSymlinks limit 255); seeded '
         'random sequences in which owner, group, mode, link target or the file itself change between 2-5 consecutive calls. '
         'Calls DURING which the tree changes: a helper waits for the first start on record, then chowns / chmods / removes the '
         'file or retargets the link while the command is still running, and the command then fails or succeeds (6 apis x '
         'direct/symlink x 7 changes x failing/succeeding; also inside the random sequences), followed by an ordinary call. '
         'api 5 = the real initializeSensors on a configuration whose only cmd sensor is used by no curve (it IS executed at '
         'start-up), and the configuration variant with such a leftover cmd sensor through Validate. '
         'Executables named by RELATIVE paths (the harness process chdirs into its work directory): c<n>/f, ./c<n>/f, '
         'c<n>/../c<n>/f, direct and via symlink, 6 apis x 5 attribute sets, with and without a hostile decoy (owner 4242, '
         'mode 0777) planted at c<n>/c<n>/f where a resolution against the directory of the executable would look; and by a '
         'BARE command name with a symlink of that name in the working directory and no / a hostile / a root-controlled / an '
         'only file of that name in a private directory in front of $PATH. Decoys record their start like every script. '
         'Names with `..` (also `.`, `//`) directly after a SYMLINKED directory (<case>/app/current/../bin/f with current -> '
         '<case>/user/releases/v1, absolute and relative): the real file stands where the kernel, os/exec and viper resolve the '
         'name (user/releases/bin/f), a decoy with the opposite attributes at the lexically cleaned place (app/bin/f): hostile '
         'real + root-controlled decoy, group-writable real + root decoy, root real + hostile decoy, no decoy; 6 apis and '
         'Validate with 4 configuration variants. '
         'All calls of one case on one name go through ONE CmdSensor / CmdFan object (as in the daemon); histories on one object: '
         'two good reads, then chown / chmod o+w / g+w with a non-root group / removal / re-pointed symlink, four more reads '
         '(each must return an error and start nothing), repair, a read, the change again, a read - 6 apis x direct/symlink; '
         'half of the random sequences also stay on one api. '
         'fan2go as a NON-ROOT user: 96 calls (6 apis, Validate with 2 variants; direct/symlink) are performed in a child process '
         'of the harness running with uid = gid = 65534 on files owned by root / by that very user / by a third user / with a '
         'non-root group with and without g+w: only root-owned files pass, whatever the effective uid. '
         'Configured exec strings with a space, `;`, `$`, `|`, `&` or a back-tick through the five wrapper apis: files named '
         'exactly so (root-controlled or not) beside a hostile f1 where a shell would end up, and "f1 --zone 1"-style strings '
         '(path plus inline argument) that name no file: the string names the file, anything else is refused, nothing runs. '
         'EVERY start of a script appends its id and stat -L of its own path to a marker file, so the observation is the list '
         'of starts inside one call with the attributes at each start. Non-trivial = at least one call on a path that leads to an '
         'existing file; distinct = distinct (operations, observations) terms.',
    assumptions=[
        'stat(2)/readlink(2) report what the harness set with chown/chmod/symlink (file system = finite map path -> node)',
        'filepath.EvalSymlinks follows at most 255 links, the kernel at most 40 (model constants go_maxlinks, kernel_maxlinks; '
        'both boundaries are exercised on the real code)',
        'a bare command name denotes the first executable file of that name in $PATH (exec.LookPath); the driver states per case '
        'which file that is (in_path)',
        'root may start a file iff one of the execute bits 0o111 is set (has_exec); files are well-formed scripts',
        'a change of the tree BETWEEN the check and the single start inside one call (inherent check-then-exec window; '
        'exec.Command is given the original path) is outside the property as stated; a change WHILE the started command runs '
        'is covered (OpExecDuring: one check and at most one start per call)',
    ],
    defects_repaired=['D25 (1cc26ca): bare command name checked in the working directory but started from $PATH'],
    trusted_base=[
        'axiom-free (Print Assumptions: Closed under the global context for every C18 theorem)',
        'hand-written model of CheckFilePermissionsForExecution / SafeCmdExecution call order / validateConfig in Model/Exec.v; '
        'agreement with the code observed on the generated cases (exhaustive over the 2x2x512x2 grid)',
        'validateSensors/validateCurves/validateFans are abstracted to their verdicts (cfg_class), labelled by the driver per variant',
    ],
    partial='',
    finding_codes={}, finding_text={},
    level_text='C18_decision holds for every integer uid/gid/mode (case analysis on the three tests) and C18_decision_grid ties it to '
               'an independent octal-digit reading on the whole 2x2x512 grid (vm_compute, bound in the statement); C18_every_call is '
               'an induction over arbitrary operation sequences: the event of the k-th call is the check evaluated in the state at '
               'step k, a command starts only for a file that is root-controlled after symlink resolution, otherwise the call is '
               'refused and nothing starts, and it never panics; C18_every_call_during extends it to a tree that changes while the '
               'started command runs (no second, unchecked start); C18_config_file(_rejected) give the same for Validate; '
               'C18_no_false_alarm: a case the model reproduces is never reported as failing. The '
               'differential run executes the real code on the full grid with a side-effect marker and on sequences that flip '
               'attributes between calls, and judges the implementation by the verified observer on the attributes the harness '
               'itself read from the file system.',
    level_note='trusted: Coq kernel; hand-written model; stat/readlink/exec-bit behaviour of Linux as named assumptions; harness runs as root',
    design_ref='DESIGN.md section 5 C18',
)
