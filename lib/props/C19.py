SPEC = dict(
    claimed=True,
    title='External commands cannot hang or crash fan2go',
    props_file='Props/C19.v', props_mod='Props.C19',
    props_extra=[('Props/C19Link.v', 'Props.C19Link')],
    proof_files=['Proofs/ExecCmd.v', 'Proofs/ExecShape.v', 'Proofs/ExecPerm.v', 'Proofs/ExecLinks.v', 'Drv/Exec.v', 'Drv/ExecHist.v'],
    tie_vo=['Proofs/ExecShape.vo', 'Proofs/ConstsTie_delays.vo', 'Proofs/LeafTie2_CheckFilePermissions.vo'],
    drivers=[dict(name='exec', drv_mod='Drv.Exec', drv_file='Drv/Exec.v', shard=200,
                  args={'quick': ['reps=1', 'long=3000'], 'thorough': ['reps=6', 'long=6000']},
                  timeout={'quick': 300, 'thorough': 1500}),
             dict(name='exechist', drv_mod='Drv.ExecHist', drv_file='Drv/ExecHist.v', shard=50,
                  args={'quick': ['long=3000'], 'thorough': ['long=4000']},
                  timeout={'quick': 300, 'thorough': 900})],
    # same rewrite as C18: os.Stat(file) in CheckFilePermissionsForExecution -> util.VerifStat, which lets the driver
    # play "another process changes the file between EvalSymlinks, Stat and the start" deterministically
    rewrites=[('internal/util/file.go', [(r'\bos\.Stat\(file\)', 'VerifStat(file)')], None)],
    rule='as root, one root-owned script per case and one real call per case (10 in parallel; all scripts are written before '
         'the first start). Failure modes: exit 0 / 1 / 2 / 126 / 127 / 255 with and without stdout and with up to 100 kB of '
         'stderr; killed by signal 9/15/11/6/1; no execute bit; binary junk; text without #!; missing #! interpreter; a '
         'directory; file removed right after the check stat-ed it; file replaced by a looping link or removed between '
         'EvalSymlinks and Stat; refused by owner / group-write / other-write / missing; sleeping 3 s past the deadline as the '
         'child itself (exec sleep), as a shell waiting for a child, with TERM/INT/HUP ignored, flooding stdout; exiting at once '
         '(status 0 or 1) or sleeping past the deadline while a background descendant holds stdout+stderr / stdout / stderr / '
         'neither for 3 s; exit 0 shortly before the deadline with descendants letting go shortly after it (Output returns nil after the '
         'deadline); a descendant that lets go after 60 ms; outputs: empty, 42, 42.5 with trailing newlines, leading '
         'newlines and blank, only newlines, abc, nan, 1e999, -3, "12 34", 0x10, 8 MiB of digits, 140 kB of newlines around a '
         'digit, 300 kB of x. Timeouts 200-500 ms through util.SafeCmdExecution; the same modes through CmdSensor.GetValue and '
         'CmdFan.GetPwm/SetPwm/GetRpm with the 2 s constant of the source (four of them past that deadline). Wall clock is '
         'measured around the call (a call that exceeds the bound is repeated once on the same script and the second observation '
         'is reported: a hang reproduces, scheduling noise does not); a panic is recovered and recorded; every call runs under a '
         'watchdog (3 x timeout + longest sleep + 3 s) and a call still blocked then - or a CmdSensor whose SetMovingAvg/GetMovingAvg '
         'block after GetValue - is recorded as a hang. Non-trivial = anything but "exit 0 with output"; '
         'distinct = distinct (api, kind, status, signal, timeout, held descriptors, output, observed class).',
    rule_exechist='driver exechist - the persistently hanging command: ONE executable is called again and again with timeouts of '
         '0.2-0.5 s at offsets 0 / 0.6 / 1.5 / 3.5 / 6.5 / 10.3 / 11 s (so: a timeout, more timeouts within ten seconds, and '
         'again after more than ten seconds) while another goroutine logs through internal/ui every 50 ms; every call has its '
         'own watchdog and is followed by a logger probe, a call that never returns or a logger silent for more than a second '
         'is recorded as a hang and ends the history. The quick tier runs this ~11.5 s history for one executable only (exec '
         'sleep); the thorough tier adds 15-call histories over 24 s for a shell waiting for a child, a lingering grandchild, a '
         'TERM-ignoring sleeper and an executable that alternates between timing out and succeeding, and 7-call histories '
         'through CmdFan.GetPwm and CmdSensor.GetValue with the 2 s constant (the sixth consecutive timeout lies beyond 10 s). '
         'Every single-call case of driver exec is also followed by a logger probe. Vanishing executable (both tiers, <1 s each): '
         'under one name, direct and through a symlink, a script runs fine, is then renamed away / replaced by a directory / '
         'by a dangling symlink / chmod 000 / restored by another process, and is called again each time (3 sequences through '
         'SafeCmdExecution, in quick one per wrapper, in thorough all through every wrapper): output or error, never a panic. '
         'Failure streaks on ONE CmdSensor / CmdFan object (all calls of a history share the object): a good read, seven '
         'consecutive failures of one kind (exit 1 / non-numeric output / no exec bit / vanished; the script reads its behaviour '
         'from a mode file) or six-seven consecutive 2 s timeouts, then recovery and a good read, every call within timeout + '
         'margin; quick: exit-1 through CmdSensor, garbage through CmdFan.GetPwm and the timeout streak through CmdSensor (~14 s, '
         'beside the persistent history); thorough: every kind plus a mixed run through all four wrappers. '
         'Start-up scenarios (both tiers, sequential, ~3 s): configuration.CurrentConfig = a cmd sensor with a linear and a PID '
         'curve on it, the real internal.InitializeObjects() with the command failing AT THE START-UP READ (exit 1 / garbage / no '
         'exec bit / vanished / 2 s timeout / healthy) and healthy afterwards, then every curve is evaluated, the sensor polled '
         'three times through updateSensor and the curves evaluated again; every step under a watchdog, a panic anywhere is '
         'the observation crash (steps are api-6 cases: completes within the bound, never panics). '
         'Text file busy: the harness keeps the root-owned script open for writing (O_CLOEXEC) while it is started, through '
         'SafeCmdExecution and every wrapper: an error at once. Multi-byte and invalid UTF-8 (a-umlaut x100..250, Japanese, '
         'emoji, 0xff runs, truncated sequences; 199/200/201-byte boundaries) as stderr of a failing command and as unparsable '
         'output, through SafeCmdExecution and every wrapper. '
         'Both drivers run in a fake desktop session: DISPLAY=:77, fake who / id / sudo / notify-send first in $PATH with a '
         'notification pipeline that takes 3 s, so a call that sends a desktop notification on an error path of command '
         'execution exceeds timeout + margin (on the unchanged tree none is sent: notify_calls stays empty).',
    assumptions=[
        'os/exec model (cmd_output): SIGKILL at the context deadline ends the child at once; its descendants are not killed; '
        'Wait blocks on the stdout/stderr copying goroutines until every holder closed the pipes; with cmd.WaitDelay = d > 0 it '
        'stops d after (child exit | deadline), whichever is first, and reports ErrWaitDelay unless the status is already an error',
        'a command that cannot be started fails at once (LookPath / fork-exec error, not an *exec.ExitError)',
        'the permission check and the start take no time in the model; real latency is absorbed by slack_ms = 400 of the 600 ms the observer accepts as the small margin (small_margin_ms)',
        'strconv.ParseFloat is an oracle (the harness applies the real function to the expected trimmed output)',
        'ctx.Err() == DeadlineExceeded exactly when the call returns at or after the deadline (cases stay >= 100 ms away from it)',
    ],
    trusted_base=[
        'C19_classify, C19_ok_only_if, C19_bounded, C19_source_shape, C19_unbounded/hangs_without_wait_delay: closed under the '
        'global context; C19_bounded_callers / C19_within_2s_plus_margin / C19_callers_never_crash mention the kernel primitives PrimFloat.*/PrimInt63.* '
        '(through f2i and is_finite of Go/GoFloat.v) and no axiom',
        'tools/gen_exec_consts.py: regex translation of cmd.WaitDelay, of the (un)checked *exec.ExitError assertion and of the '
        'check-before-start order from internal/util/exec.go into gen/ExecConsts.v',
        'hand-written model of SafeCmdExecution, CmdSensor.GetValue, CmdFan.GetPwm/GetRpm/SetPwm and of os/exec in Model/Exec.v',
        'C19_no_false_alarm (Props/C19Link.v) uses FloatAxioms.SF2Prim_Prim2SF (stdlib) through feqb_eq',
    ],
    partial='C19_bounded is a theorem about the model of os/exec, not about the Go runtime or the kernel: the model cannot exhibit '
            'scheduler latency, a child in uninterruptible sleep that survives SIGKILL, a fork that itself blocks, or memory '
            'exhaustion from unbounded output (cmd.Output buffers everything the command prints before the deadline); the real '
            'wall clock is measured by the driver against timeout + 600 ms.',
    finding_codes={}, finding_text={},
    level_text='For every behaviour of the command (any exit status or signal, any of the start failures, never ending, descendants '
               'holding the pipes for any time or for ever, any output) and every pair of file-system states the permission check '
               'may see, SafeCmdExecution and its four callers never panic and yield the trimmed output or an error (output only '
               'for a command that ended by itself with status 0 before the deadline); with the wait delay of the source (> 0, '
               'proved by reflexivity on the regenerated constant) every call returns by timeout + wait delay in the os/exec '
               'model, and without it no bound exists (D13, proved). The differential run performs every failure mode of the '
               'property on the real code, compares outcome classes with the model and judges panic / output / wall clock by '
               'the verified observer.',
    level_note='trusted: Coq kernel; model of os/exec semantics (named assumptions); regex translator for the wait delay; wall clock measured, not proved',
    design_ref='DESIGN.md section 5 C19',
)
SPEC['rule'] = SPEC['rule'] + ' ' + SPEC.pop('rule_exechist')
