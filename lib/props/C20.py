import os, re

_here = os.path.dirname(os.path.abspath(__file__))
_verif = os.path.dirname(os.path.dirname(_here))


def _findings():
    """code -> (key, text) from coq/Model/RaceFindings.v (the list the theorem quantifies over)."""
    codes, text = {}, {}
    try:
        src = open(os.path.join(_verif, 'coq', 'Model', 'RaceFindings.v')).read()
    except OSError:
        return codes, text
    for m in re.finditer(r'\(\s*\(\s*"([^"]*)"\s*,\s*(K\w+)\s*,\s*(K\w+)\s*\)\s*,\s*(\d+)\s*\)', src):
        n = int(m.group(4))
        key = 'R%02d' % n
        codes[n] = key
        text[key] = 'D21 data race on %s between goroutine kinds %s and %s (no common lock, not ordered by start)' % (
            m.group(1), m.group(2), m.group(3))
    return codes, text


_codes, _text = _findings()


def _table_json():
    # same rule as tools/gen_accesses.py:table_json_path
    import hashlib
    repo = os.path.abspath(os.environ.get('VERIF_REPO', '/repo'))
    if repo == '/repo':
        return os.path.join(_verif, 'work', 'accesses', 'accesses.json')
    return os.path.join(_verif, 'work', 'accesses', 'accesses-%s.json' % hashlib.sha256(repo.encode()).hexdigest()[:10])

SPEC = dict(
    claimed=True,
    title='Concurrent activities are free of data races',
    props_file='Props/C20.v', props_mod='Props.C20',
    proof_files=['Proofs/Races.v', 'Proofs/RacesTable.v', 'Drv/Race.v'],
    tie_vo=['gen/Accesses.vo'],
    # race=True: the driver must run in a binary built by core.build_harness(run_dir, race=True, drivers=['race']);
    # in a plain binary it still runs but can only observe "fatal error: concurrent map ..." aborts of the stress child.
    drivers=[dict(name='race', drv_mod='Drv.Race', drv_file='Drv/Race.v', shard=400, race=True,
                  args={'quick': ['rounds=4', 'ms=2500'], 'thorough': ['rounds=12', 'ms=6000']},
                  timeout={'quick': 600, 'thorough': 3000},
                  env={'VERIF_ACCESSES': _table_json(), 'VERIF_RACE_SITES': os.path.join(_here, 'C20_sites.json')})],
    rule='one case per candidate group = (memory cell, unordered pair of goroutine kinds) for which the regenerated access table '
         'contains a pair of accesses with conflicting modes (exhaustive over the table: bound = the table); the static verdict is '
         'the verified classifier evaluated inside Coq, the dynamic observation is the number of Go race-detector reports mapped to '
         'the group while the real sensor monitors, controllers (prelude + RPM monitor + control loop + restore), REST handlers '
         '(list and item endpoints through echo.ServeHTTP), Prometheus collectors (registry Gather), a third-party pwm writer and '
         'transient injected device faults (stateless, lock-free file-layer hooks: ~3% of sensor reads, ~4% rpm reads, ~2% pwm reads and writes fail, '
         'so every error / warning path incl. failed PID-curve evaluation -> restore -> controller restart runs under the detector) '
         'run in-process at 1 ms tick rates on 10 fans (4 hwmon, 5 file incl. two whose pwm file does not exist at start-up, one of them starting late, 1 cmd) created by the real start-up glue of backend.go '
         '(initializeSensors/Curves/Fans/FanControllers) from a configuration that selects the control algorithm in every way '
         '(default PID x2, explicit pid, deprecated controlLoop, direct unlimited x2, direct limited x2), sharing two sensors, a PID curve '
         'and a function curve, for `rounds` child '
         'processes of `ms` milliseconds each (seeded request mix; schedules are not reproducible). Every report is parsed (both '
         'stacks), its goroutine kinds are read off the stacks and it is mapped to a pair of table entries; a report that maps to '
         'no pair is emitted as its own case with mapped=false (= translator missed an access -> mismatch and failure). '
         'A recorded finding whose set of access sites (kind, mode, function, lockset) grew since it was triaged (lib/props/C20_sites.json, '
         'written by tools/mk_race_findings.py --sites) is emitted as its own failing case naming the new site. '
         'Non-trivial = every emitted group (it has a conflicting pair); distinct = distinct groups.',
    assumptions=[
        'Go memory model: program order, go-statement and mutex Lock/Unlock happens-before; two conflicting accesses without a common '
        'mutex and not ordered by goroutine start are a data race (lock-set argument; channel happens-before is not used - no channel '
        'carries shared data in fan2go)',
        'goroutine roots (header of gen/Accesses.v) are all goroutines that touch fan2go state; the main goroutine up to g.Run() happens-before all of them',
        'sharing relation may_share / ordered_by_start of Model/Races.v (one Fan, controller and control loop per configured fan; one monitor per sensor; '
        'curves, sensors and PID state shared; API and metrics requests concurrent with everything and with each other)',
        'locks: function-level `mu.Lock(); defer mu.Unlock()` only; an instance mutex guards the fields of its own receiver in that function, a package-level mutex guards the callees too',
        'reflection (reprint.This, encoding/json, echo JSON*) reads every field of every module type reachable from the static argument type; json.Unmarshal writes its target',
        'a whole module struct copied through a pointer (x := *p, f(*p), a value-receiver method called on a pointer or on an interface holding one) is an unlocked read of every field incl. mutex words at that site',
        'a pointer to a module struct or a module interface value converted to `any` (argument of ui.Warning / fmt.*: %v formatting) is an unlocked read of every field of the struct(s)',
    ],
    trusted_base=[
        'translator tools/accesses (go/packages + go/ssa, ~900 lines Go) and tools/gen_accesses.py: its table is the object of the theorems; '
        'its completeness is exercised by the race-detector run (every report must map to a table pair)',
        'cells are named by field path / global, not by object: two objects of one type are distinguished only through may_share',
        'a module struct type of which a package-level variable holds an instance (directly, by pointer, in a slice/map/interface) is treated as shared by all goroutines '
        '(a constructor may hand out the package-level object to several owners); listed as notes in the header of gen/Accesses.v',
        'calls through function values are not followed except anonymous functions passed as call arguments (not to run.Group.Add); '
        'state of packages outside the module (pterm, prometheus, echo, bbolt, cmap) is not in the table',
        'Go race detector (ThreadSanitizer runtime) and the parser / stack-to-kind mapping in drv_race.go',
    ],
    partial='C20_race_free_full is refuted on the tree as it stands (D21); proved instead: C20_race_free_modulo (every racing pair falls into a recorded finding). '
            'The web-server start actor is analysed statically but not exercised dynamically (it would bind ports); schedules explored dynamically are whatever the '
            'Go scheduler produces in the stress rounds.',
    finding_codes=_codes, finding_text=_text,
    level_text='Lock-set race freedom is decided by a verified classifier (C20_classifier_sound_complete) over the table of shared-memory accesses per goroutine kind that is '
               're-translated from the Go source on every run; C20_race_free_modulo proves by exhaustive evaluation over that finite table that every racing pair belongs to one '
               'of the recorded findings R01.. (D21), so a removed lock or a new unguarded shared access makes the theorem fail and is reported with both positions; the same '
               'activities run in-process under the Go race detector and every report must map to a pair of table entries.',
    level_note='trusted: Coq kernel; the SSA translator and its goroutine roots / sharing relation; function-level locksets; Go memory model for mutexes and go statements',
    design_ref='DESIGN.md section 5 C20',
)
