# Per-property registry used by ./check: which theorems, which tie lemmas,
# which drivers, how failing cases map to recorded findings.

TRUSTED_BASE_COMMON = [
    'Coq 8.16.1 kernel incl. its vm_compute machine and the native Uint63/Float64 primitives (no native_compute)',
    'translators tools/gen_consts.py, tools/gen_leaf.py (output re-checked by make on every run)',
    'source rewriters in lib/core.py (time.Now/time.Sleep/os.ReadFile/os.WriteFile -> hook calls) and the build overlay',
    'correspondence harness harness/overlay/cmd/verifharness (drivers, Go->Coq case printer): agreement is observed on generated cases, not proved',
    'no extraction is used: the model runs inside Coq (vm_compute), hence no Extract directives',
]

PROPS = {}

PROPS['C12'] = dict(
    props_file='Props/C12.v', props_mod='Props.C12',
    proof_files=['Proofs/Closest.v', 'Proofs/LeafTie.v', 'Drv/Closest.v'],
    tie_vo=['Proofs/LeafTie.vo'],
    drivers=[dict(name='closest', drv_mod='Drv.Closest', drv_file='Drv/Closest.v', shard=300)],
    rule='exhaustive: every map over every subset of a small key universe with outputs from a small alphabet '
         '(quick: 6 keys x 3 outputs; thorough: 12 keys, sampled patterns), plus seeded random full-size maps '
         '(identity, quantiser, non-monotonic, constant, single entry, sparse user map); requests = every supported key, '
         'its neighbours, midpoints +-1, -50, 305 and random ones. Non-trivial = at least two supported inputs; '
         'distinct = distinct (map, requests, observation) terms.',
    assumptions=['PWM-map outputs are never -1 (the sentinel of ExtractKeysWithDistinctValues); outputs are PWM values',
                 'getClosest tie: gen/Leaf.v regenerated from internal/util/math.go, equal to the model by reflexivity'],
    finding_codes={}, finding_text={},
)
