# Per-property registry used by ./check.  One file per property: lib/props/<id>.py defining SPEC = dict(...).
# (which theorems, which tie lemmas, which drivers, how failing cases map to recorded findings)
import glob, importlib.util, os

TRUSTED_BASE_COMMON = [
    'Coq 8.16.1 kernel incl. its vm_compute machine and the native Uint63/Float64 primitives (no native_compute)',
    'translators tools/gen_consts.py, tools/gen_leaf.py (output re-checked by make on every run)',
    'source rewriters in lib/core.py (time.Now/time.Sleep/os.ReadFile/os.WriteFile -> hook calls) and the build overlay',
    'correspondence harness harness/overlay/cmd/verifharness (drivers, Go->Coq case printer): agreement is observed on generated cases, not proved',
    'no extraction is used: the model runs inside Coq (vm_compute), hence no Extract directives',
]

PROPS = {}
_here = os.path.dirname(os.path.abspath(__file__))
for _p in sorted(glob.glob(os.path.join(_here, 'props', 'C*.py'))):
    _spec = importlib.util.spec_from_file_location('prop_' + os.path.basename(_p)[:-3], _p)
    _m = importlib.util.module_from_spec(_spec)
    try:
        _spec.loader.exec_module(_m)
        PROPS[os.path.basename(_p)[:-3]] = _m.SPEC
    except Exception as _e:      # a broken spec file affects its own property only
        import sys as _sys
        print('registry: cannot load %s: %r' % (_p, _e), file=_sys.stderr)
