#!/bin/sh
# MANIFEST.setup_cmd: build the framework from files on disk only (offline).
set -e
cd "$(dirname "$0")"
export GOFLAGS=-mod=mod GOPROXY=off GOSUMDB=off GOTOOLCHAIN=local
python3 - <<'PY'
import sys, os
sys.path.insert(0, 'lib')
import core
print('\n'.join(core.regenerate()))
core.coq_makefile()
PY
( cd coq && timeout 3000 make -f Makefile.coq -j16 2>&1 | tail -5 )
# warm the Go build cache with one overlay build of the harness
python3 - <<'PY'
import sys, os, shutil
sys.path.insert(0, 'lib')
import core
d = os.path.join(core.WORK, 'setup')
os.makedirs(d, exist_ok=True)
b, notes, out = core.build_harness(d)
print(notes)
if b is None:
    print(out[-3000:])
shutil.rmtree(d, ignore_errors=True)
PY
echo setup done
