// accesses: translator for property C20 (DESIGN.md section 5, C20).
//
// Loads the fan2go module's own packages (dependencies from export data), builds
// SSA for them only, and computes for every GOROUTINE KIND the set of reachable
// shared-memory accesses (cell, Read|Write|Sync, lockset, position).
//
//	call graph  = static callees + interface dispatch over the module's own
//	              named types, confined to the module; `go f()` / `defer f()`
//	              with a static callee are followed like calls; calls through
//	              function values are NOT followed (goroutine bodies are
//	              explicit roots).
//	locksets    = function level: `mu.Lock(); defer mu.Unlock()` in the entry
//	              block is the only recognised idiom; anything else that
//	              touches a mutex makes the function "unknown" = no lock.
//	              A global mutex guards everything after the Lock call incl.
//	              callees; a mutex that is a field of the receiver guards only
//	              accesses to fields of that same receiver in that function.
//	cells       = "pkg.Type.f1.f2" (field path through value-nested module
//	              structs, restarted at every pointer), "pkg:global",
//	              suffix "*" = the cell a pointer stored in the cell points to,
//	              suffix "[]" = contents of the map / slice stored in the cell.
//	              Map / slice / pointer values are traced back to the cell they
//	              were loaded from through calls, parameters, phis and closure
//	              bindings; what cannot be traced is named "?<type>".
//	reflection  = reprint.This / encoding/json / echo's JSON* are reads of all
//	              (json: exported) fields of every module type reachable from
//	              the static type of the argument (interfaces -> all module
//	              types implementing them).
//
// usage: accesses <repo> <modfile>      (JSON on stdout; non-zero exit = fail closed)
package main

import (
	"encoding/json"
	"fmt"
	"go/token"
	"go/types"
	"os"
	"sort"
	"strings"

	"golang.org/x/tools/go/packages"
	"golang.org/x/tools/go/ssa"
	"golang.org/x/tools/go/ssa/ssautil"
)

const modPath = "github.com/markusressel/fan2go"

type Access struct {
	Kind  string   `json:"kind"`
	Loc   string   `json:"loc"`
	Class string   `json:"class"`
	Mode  string   `json:"mode"` // R | W | S (sync operation on a mutex)
	Locks []string `json:"locks"`
	Func  string   `json:"func"`
	File  string   `json:"file"`
	Line  int      `json:"line"`
	Refl  bool     `json:"refl,omitempty"`
}

type rawAccess struct {
	cells     []string
	mode      string
	pos       token.Pos
	afterLock bool
	base      ssa.Value // root pointer of the FieldAddr chain, when the address is one
	refl      bool
}

type callInfo struct {
	targets   []*ssa.Function
	afterLock bool
}

type lockInfo struct {
	name   string
	global bool
	base   ssa.Value
}

type fnInfo struct {
	accesses []rawAccess
	calls    []callInfo
	lock     *lockInfo
	unknown  bool // touches a mutex outside the recognised idiom
}

type An struct {
	prog      *ssa.Program
	modTypes  []types.Type // every named type of the module, T and *T
	allFuncs  []*ssa.Function
	callers   map[*ssa.Function][]ssa.CallInstruction
	closures  map[*ssa.Function][]*ssa.MakeClosure
	infos     map[*ssa.Function]*fnInfo
	notes     []string
	noteSeen  map[string]bool
	implCache map[string][]*ssa.Function
	made      map[string][]types.Type // interface type -> concrete module types converted to it (MakeInterface)
	flows     map[string][]string     // interface type J -> interface types I that values of J are converted / asserted to
	flowCache map[string]map[string]types.Type
}

func die(format string, a ...interface{}) {
	fmt.Fprintf(os.Stderr, "accesses: "+format+"\n", a...)
	os.Exit(1)
}

func (a *An) note(s string) {
	if !a.noteSeen[s] {
		a.noteSeen[s] = true
		a.notes = append(a.notes, s)
	}
}

func inModulePath(p string) bool { return p == modPath || strings.HasPrefix(p, modPath+"/") }

func funcPkg(fn *ssa.Function) *types.Package {
	if fn.Pkg != nil {
		return fn.Pkg.Pkg
	}
	if o := fn.Origin(); o != nil && o.Pkg != nil {
		return o.Pkg.Pkg
	}
	if fn.Object() != nil {
		return fn.Object().Pkg()
	}
	if fn.Parent() != nil {
		return funcPkg(fn.Parent())
	}
	return nil
}

func inModuleFn(fn *ssa.Function) bool {
	p := funcPkg(fn)
	return p != nil && inModulePath(p.Path())
}

func shortPkg(p *types.Package) string {
	if p == nil {
		return "_"
	}
	path := p.Path()
	if i := strings.LastIndex(path, "/"); i >= 0 {
		return path[i+1:]
	}
	return path
}

func typeName(t types.Type) string {
	if n, ok := t.(*types.Named); ok {
		return shortPkg(n.Obj().Pkg()) + "." + n.Obj().Name()
	}
	return types.TypeString(t, func(p *types.Package) string { return shortPkg(p) })
}

func deref(t types.Type) types.Type {
	if p, ok := t.Underlying().(*types.Pointer); ok {
		return p.Elem()
	}
	return t
}

func isModuleStruct(t types.Type) bool {
	if _, ok := t.Underlying().(*types.Struct); !ok {
		return false
	}
	if n, ok := t.(*types.Named); ok {
		return n.Obj().Pkg() != nil && inModulePath(n.Obj().Pkg().Path())
	}
	return true // unnamed struct types
}

// leafPaths: suffixes of the leaf cells of a value of type t (value-nested module structs expanded).
func leafPaths(t types.Type) []string {
	if !isModuleStruct(t) {
		return []string{""}
	}
	st := t.Underlying().(*types.Struct)
	var res []string
	for i := 0; i < st.NumFields(); i++ {
		for _, s := range leafPaths(st.Field(i).Type()) {
			res = append(res, "."+st.Field(i).Name()+s)
		}
	}
	if len(res) == 0 {
		return []string{""}
	}
	return res
}

func uniq(xs []string) []string {
	sort.Strings(xs)
	res := []string{}
	for i, x := range xs {
		if i == 0 || x != xs[i-1] {
			res = append(res, x)
		}
	}
	return res
}

// ---------------------------------------------------------------- origins
type origin struct {
	cell   string
	isAddr bool // the value IS the address of the cell (else: the value was loaded from the cell)
}

type octx struct {
	seen   map[ssa.Value]bool
	depth  int
	fseen  map[ssa.Value]bool
	fdepth int
}

func (a *An) structCells(base ssa.Value, c *octx) []string {
	switch b := base.(type) {
	case *ssa.FieldAddr, *ssa.IndexAddr:
		return a.cellsOf(b, c)
	case *ssa.Alloc:
		return nil // freshly allocated object: not shared before it is published
	}
	t := deref(base.Type())
	if n, ok := t.(*types.Named); ok && !(n.Obj().Pkg() != nil && inModulePath(n.Obj().Pkg().Path())) {
		return nil // object of a type defined outside the module (os/exec, syscall, time, ...): not fan2go state
	}
	return []string{typeName(t)}
}

func (a *An) origins(v ssa.Value, c *octx) []origin {
	if c.seen[v] || c.depth > 12 {
		return nil
	}
	c.seen[v] = true
	defer func() { delete(c.seen, v) }()
	switch x := v.(type) {
	case *ssa.FieldAddr:
		st := deref(x.X.Type()).Underlying().(*types.Struct)
		var res []origin
		for _, b := range a.structCells(x.X, c) {
			res = append(res, origin{b + "." + st.Field(x.Field).Name(), true})
		}
		return res
	case *ssa.Global:
		if x.Pkg != nil && inModulePath(x.Pkg.Pkg.Path()) {
			return []origin{{shortPkg(x.Pkg.Pkg) + ":" + x.Name(), true}}
		}
		return nil
	case *ssa.IndexAddr:
		var res []origin
		for _, s := range a.contents(x.X, c) {
			res = append(res, origin{s, true})
		}
		return res
	case *ssa.Alloc:
		if !x.Heap {
			return nil
		}
		var res []origin
		for _, s := range a.valueCells(x, c) {
			res = append(res, origin{s + "*", true})
		}
		return res
	case *ssa.UnOp:
		if x.Op == token.MUL {
			var res []origin
			for _, s := range a.cellsOf(x.X, c) {
				res = append(res, origin{s, false})
			}
			return res
		}
		return nil
	case *ssa.Call:
		return a.callOrigins(&x.Call, -1, c)
	case *ssa.Extract:
		if call, ok := x.Tuple.(*ssa.Call); ok {
			return a.callOrigins(&call.Call, x.Index, c)
		}
		return nil // comma-ok lookups etc.: element values, not traced
	case *ssa.Parameter:
		fn := x.Parent()
		idx := -1
		for i, p := range fn.Params {
			if p == x {
				idx = i
			}
		}
		var res []origin
		c.depth++
		for _, ci := range a.callers[fn] {
			if ci == nil {
				continue // invoked as a callback by code outside the module
			}
			cs := ci.Common()
			var arg ssa.Value
			if cs.IsInvoke() {
				if idx == 0 {
					arg = cs.Value
				} else if idx-1 < len(cs.Args) {
					arg = cs.Args[idx-1]
				}
			} else if idx < len(cs.Args) {
				arg = cs.Args[idx]
			}
			if arg != nil {
				res = append(res, a.origins(arg, c)...)
			}
		}
		c.depth--
		if len(a.callers[fn]) == 0 {
			return []origin{{"?" + typeName(x.Type()), false}}
		}
		return res
	case *ssa.FreeVar:
		fn := x.Parent()
		idx := -1
		for i, p := range fn.FreeVars {
			if p == x {
				idx = i
			}
		}
		var res []origin
		c.depth++
		for _, mc := range a.closures[fn] {
			if idx < len(mc.Bindings) {
				res = append(res, a.origins(mc.Bindings[idx], c)...)
			}
		}
		c.depth--
		return res
	case *ssa.Phi:
		var res []origin
		for _, e := range x.Edges {
			res = append(res, a.origins(e, c)...)
		}
		return res
	case *ssa.ChangeType:
		return a.origins(x.X, c)
	case *ssa.Slice:
		if _, ok := x.X.Type().Underlying().(*types.Pointer); ok { // *array
			var res []origin
			for _, s := range a.cellsOf(x.X, c) {
				res = append(res, origin{s, false})
			}
			return res
		}
		return a.origins(x.X, c)
	case *ssa.MakeMap, *ssa.MakeSlice:
		// a fresh map / slice: named by the cells it is (later) stored in, if any (pre-publication writes)
		var res []origin
		for _, s := range a.valueCells(v, c) {
			res = append(res, origin{s, false})
		}
		return res
	case *ssa.Const, *ssa.MakeChan, *ssa.MakeClosure, *ssa.Function, *ssa.Builtin:
		return nil
	case *ssa.Lookup, *ssa.Next, *ssa.TypeAssert, *ssa.MakeInterface, *ssa.ChangeInterface, *ssa.Convert, *ssa.Index, *ssa.Field, *ssa.BinOp:
		return []origin{{"?" + typeName(v.Type()), false}}
	}
	return []origin{{"?" + typeName(v.Type()), false}}
}

// valueCells (forward flow): names of the shared cells the value v is (eventually) stored in - directly, through
// local variables, by being returned to a caller, passed to a module function or captured by a closure.
func (a *An) valueCells(v ssa.Value, c *octx) []string {
	if c.fseen == nil {
		c.fseen = map[ssa.Value]bool{}
	}
	if c.fseen[v] || c.fdepth > 6 {
		return nil
	}
	c.fseen[v] = true
	defer delete(c.fseen, v)
	refs := v.Referrers()
	if refs == nil {
		return nil
	}
	var res []string
	for _, r := range *refs {
		switch x := r.(type) {
		case *ssa.Store:
			if x.Val != v || x.Addr == v {
				continue
			}
			if al, ok := x.Addr.(*ssa.Alloc); ok {
				// a local variable: the value lives on in what is loaded from it, and in "C*" if the variable's address escapes to cell C
				for _, s := range a.valueCells(al, c) {
					res = append(res, s+"*")
				}
				if ar := al.Referrers(); ar != nil {
					for _, lr := range *ar {
						if ld, ok := lr.(*ssa.UnOp); ok && ld.Op == token.MUL {
							res = append(res, a.valueCells(ld, c)...)
						}
					}
				}
			} else {
				res = append(res, a.cellsOf(x.Addr, c)...)
			}
		case *ssa.Phi, *ssa.ChangeType:
			res = append(res, a.valueCells(x.(ssa.Value), c)...)
		case *ssa.Return:
			fn := x.Parent()
			idx := -1
			for i, rv := range x.Results {
				if rv == v {
					idx = i
				}
			}
			c.fdepth++
			for _, ci := range a.callers[fn] {
				if ci == nil || ci.Value() == nil {
					continue
				}
				if pn := ci.Parent().Name(); pn == "init" || strings.HasPrefix(pn, "init#") {
					continue // the call made by a package initialiser is a different (earlier) instance of this function
				}
				call := ci.Value()
				if len(x.Results) == 1 {
					res = append(res, a.valueCells(call, c)...)
					continue
				}
				if cr := call.Referrers(); cr != nil {
					for _, e := range *cr {
						if ex, ok := e.(*ssa.Extract); ok && ex.Index == idx {
							res = append(res, a.valueCells(ex, c)...)
						}
					}
				}
			}
			c.fdepth--
		case ssa.CallInstruction:
			cc := x.Common()
			c.fdepth++
			for _, fn := range a.resolve(cc) {
				for i, arg := range cc.Args {
					if arg != v {
						continue
					}
					pi := i
					if cc.IsInvoke() {
						pi = i + 1
					}
					if pi < len(fn.Params) {
						res = append(res, a.valueCells(fn.Params[pi], c)...)
					}
				}
			}
			c.fdepth--
		case *ssa.MakeClosure:
			if fn, ok := x.Fn.(*ssa.Function); ok {
				for i, b := range x.Bindings {
					if b == v && i < len(fn.FreeVars) {
						c.fdepth++
						res = append(res, a.valueCells(fn.FreeVars[i], c)...)
						c.fdepth--
					}
				}
			}
		}
	}
	return uniq(res)
}

// callbackArgs: anonymous functions handed to a call as arguments.  They are followed as if called at that point
// (bbolt's db.Update(func...), sort.Slice(..., func...)), except for run.Group.Add, whose arguments are the
// goroutine bodies / interrupt callbacks that are listed explicitly as roots.
func (a *An) callbackArgs(cc *ssa.CallCommon) []*ssa.Function {
	if strings.HasSuffix(fullCallee(cc), "oklog/run.Group).Add") {
		return nil
	}
	var res []*ssa.Function
	for _, arg := range cc.Args {
		var fn *ssa.Function
		switch x := arg.(type) {
		case *ssa.MakeClosure:
			fn, _ = x.Fn.(*ssa.Function)
		case *ssa.Function:
			if x.Parent() != nil {
				fn = x
			}
		}
		if fn != nil && inModuleFn(fn) && len(fn.Blocks) > 0 {
			res = append(res, fn)
		}
	}
	return res
}

func (a *An) callOrigins(cc *ssa.CallCommon, idx int, c *octx) []origin {
	targets := a.resolve(cc)
	if len(targets) == 0 {
		if cc.IsInvoke() || cc.StaticCallee() != nil { // outside the module
			var t types.Type = cc.Signature().Results()
			if tup, ok := t.(*types.Tuple); ok && tup.Len() > 0 {
				i := idx
				if i < 0 {
					i = 0
				}
				t = tup.At(i).Type()
			}
			return []origin{{"?" + typeName(t), false}}
		}
		return nil
	}
	var res []origin
	c.depth++
	for _, fn := range targets {
		for _, b := range fn.Blocks {
			if len(b.Instrs) == 0 {
				continue
			}
			if ret, ok := b.Instrs[len(b.Instrs)-1].(*ssa.Return); ok {
				i := idx
				if i < 0 {
					i = 0
				}
				if i < len(ret.Results) {
					res = append(res, a.origins(ret.Results[i], c)...)
				}
			}
		}
	}
	c.depth--
	return res
}

// cellsOf: names of the memory cells the pointer value may point to.
func (a *An) cellsOf(addr ssa.Value, c *octx) []string {
	var res []string
	for _, o := range a.origins(addr, c) {
		if o.isAddr {
			res = append(res, o.cell)
		} else {
			res = append(res, o.cell+"*")
		}
	}
	return uniq(res)
}

// contents: names of the contents of the map / slice value.
func (a *An) contents(m ssa.Value, c *octx) []string {
	var res []string
	for _, o := range a.origins(m, c) {
		res = append(res, o.cell+"[]")
	}
	return uniq(res)
}

// rawAllocs: the local variables (Allocs) a pointer value may point to (through closure bindings and phis).
func (a *An) rawAllocs(v ssa.Value, c *octx) []*ssa.Alloc {
	if c.seen[v] || c.depth > 8 {
		return nil
	}
	c.seen[v] = true
	defer delete(c.seen, v)
	switch x := v.(type) {
	case *ssa.Alloc:
		return []*ssa.Alloc{x}
	case *ssa.FreeVar:
		fn := x.Parent()
		var res []*ssa.Alloc
		for i, p := range fn.FreeVars {
			if p != x {
				continue
			}
			for _, mc := range a.closures[fn] {
				if i < len(mc.Bindings) {
					c.depth++
					res = append(res, a.rawAllocs(mc.Bindings[i], c)...)
					c.depth--
				}
			}
		}
		return res
	case *ssa.Phi:
		var res []*ssa.Alloc
		for _, e := range x.Edges {
			res = append(res, a.rawAllocs(e, c)...)
		}
		return res
	}
	return nil
}

func newCtx() *octx { return &octx{seen: map[ssa.Value]bool{}} }

// ---------------------------------------------------------------- call resolution
func (a *An) resolve(cc *ssa.CallCommon) []*ssa.Function {
	if cc.IsInvoke() {
		key := cc.Value.Type().String() + "#" + cc.Method.Id()
		if r, ok := a.implCache[key]; ok {
			return r
		}
		iface, _ := cc.Value.Type().Underlying().(*types.Interface)
		var res []*ssa.Function
		if iface != nil {
			flowing := a.typesFlowingTo(cc.Value.Type().String())
			for _, t := range a.modTypes {
				if types.IsInterface(t) || !types.Implements(t, iface) {
					continue
				}
				if _, ok := flowing[t.String()]; !ok {
					continue // never converted to this interface (or one flowing into it) anywhere in the module
				}
				sel := a.prog.MethodSets.MethodSet(t).Lookup(cc.Method.Pkg(), cc.Method.Name())
				if sel == nil {
					continue
				}
				if fn := a.prog.MethodValue(sel); fn != nil {
					res = append(res, fn)
				}
			}
		}
		a.implCache[key] = res
		return res
	}
	if fn := cc.StaticCallee(); fn != nil {
		if inModuleFn(fn) && len(fn.Blocks) > 0 {
			return []*ssa.Function{fn}
		}
		return nil
	}
	return nil // call through a function value: not followed
}

// typesFlowingTo: concrete module types that are converted to interface type `it`, directly (MakeInterface) or
// through a chain of interface-to-interface conversions / type assertions found anywhere in the module.
func (a *An) typesFlowingTo(it string) map[string]types.Type {
	if r, ok := a.flowCache[it]; ok {
		return r
	}
	res := map[string]types.Type{}
	seen := map[string]bool{}
	// reverse reachability: J flows to I; we need all J with a path J ->* it
	rev := map[string][]string{}
	for j, is := range a.flows {
		for _, i := range is {
			rev[i] = append(rev[i], j)
		}
	}
	work := []string{it}
	for len(work) > 0 {
		i := work[len(work)-1]
		work = work[:len(work)-1]
		if seen[i] {
			continue
		}
		seen[i] = true
		for _, t := range a.made[i] {
			res[t.String()] = t
		}
		work = append(work, rev[i]...)
	}
	a.flowCache[it] = res
	return res
}

func (a *An) indexInterfaces() {
	for _, fn := range a.allFuncs {
		for _, b := range fn.Blocks {
			for _, instr := range b.Instrs {
				switch x := instr.(type) {
				case *ssa.MakeInterface:
					a.made[x.Type().String()] = append(a.made[x.Type().String()], x.X.Type())
				case *ssa.ChangeInterface:
					a.flows[x.X.Type().String()] = append(a.flows[x.X.Type().String()], x.Type().String())
				case *ssa.TypeAssert:
					if types.IsInterface(x.AssertedType) {
						a.flows[x.X.Type().String()] = append(a.flows[x.X.Type().String()], x.AssertedType.String())
					}
				}
			}
		}
	}
}

func calleeKey(cc *ssa.CallCommon) string {
	if cc.IsInvoke() {
		return typeName(cc.Value.Type()) + "." + cc.Method.Name()
	}
	if fn := cc.StaticCallee(); fn != nil {
		if fn.Signature.Recv() != nil {
			return typeName(deref(fn.Signature.Recv().Type())) + "." + fn.Name()
		}
		if p := funcPkg(fn); p != nil {
			return shortPkg(p) + "." + fn.Name()
		}
		return fn.Name()
	}
	return ""
}

func fullCallee(cc *ssa.CallCommon) string {
	if cc.IsInvoke() {
		return cc.Value.Type().String() + "." + cc.Method.Name()
	}
	if fn := cc.StaticCallee(); fn != nil {
		return fn.String()
	}
	return ""
}

// ---------------------------------------------------------------- reflection
func (a *An) reflCells(t types.Type, prefix string, exportedOnly bool, seen map[string]bool, out *[]string) {
	switch u := t.Underlying().(type) {
	case *types.Struct:
		if !isModuleStruct(t) {
			return
		}
		if prefix == "" {
			prefix = typeName(t)
			key := prefix
			if seen[key] {
				return
			}
			seen[key] = true
		}
		for i := 0; i < u.NumFields(); i++ {
			f := u.Field(i)
			if exportedOnly && !f.Exported() {
				continue
			}
			cell := prefix + "." + f.Name()
			ft := f.Type()
			if isModuleStruct(ft) {
				a.reflCells(ft, cell, exportedOnly, seen, out)
				continue
			}
			*out = append(*out, cell)
			a.reflInto(ft, cell, exportedOnly, seen, out)
		}
	case *types.Pointer, *types.Map, *types.Slice, *types.Interface, *types.Array:
		a.reflInto(t, prefix, exportedOnly, seen, out)
	}
}

// reflInto: what reflection reads *through* a value of type t that was loaded from `cell` ("" = a local value).
func (a *An) reflInto(t types.Type, cell string, exportedOnly bool, seen map[string]bool, out *[]string) {
	switch u := t.Underlying().(type) {
	case *types.Pointer:
		if isModuleStruct(u.Elem()) {
			a.reflCells(u.Elem(), "", exportedOnly, seen, out)
			return
		}
		if cell != "" {
			if _, isStruct := u.Elem().Underlying().(*types.Struct); !isStruct {
				*out = append(*out, cell+"*")
				a.reflInto(u.Elem(), cell+"*", exportedOnly, seen, out)
			}
		}
	case *types.Map:
		if cell != "" {
			*out = append(*out, cell+"[]")
		}
		a.reflElem(u.Elem(), cell, exportedOnly, seen, out)
	case *types.Slice:
		if cell != "" {
			*out = append(*out, cell+"[]")
		}
		a.reflElem(u.Elem(), cell, exportedOnly, seen, out)
	case *types.Array:
		a.reflElem(u.Elem(), cell, exportedOnly, seen, out)
	case *types.Interface:
		if n, ok := t.(*types.Named); ok && n.Obj().Pkg() != nil && inModulePath(n.Obj().Pkg().Path()) {
			for _, mt := range a.modTypes {
				if !types.IsInterface(mt) && types.Implements(mt, u) {
					a.reflInto(mt, "", exportedOnly, seen, out)
					if isModuleStruct(mt) {
						a.reflCells(mt, "", exportedOnly, seen, out)
					}
				}
			}
		}
	}
}

func (a *An) reflElem(et types.Type, cell string, exportedOnly bool, seen map[string]bool, out *[]string) {
	if isModuleStruct(et) {
		p := ""
		if cell != "" {
			p = cell + "[]"
		}
		a.reflCells(et, p, exportedOnly, seen, out)
		return
	}
	c := ""
	if cell != "" {
		c = cell + "[]"
	}
	switch et.Underlying().(type) {
	case *types.Pointer, *types.Interface:
		a.reflInto(et, "", exportedOnly, seen, out)
	case *types.Map, *types.Slice:
		a.reflInto(et, c, exportedOnly, seen, out)
	}
}

func isEmptyInterface(t types.Type) bool {
	i, ok := t.Underlying().(*types.Interface)
	return ok && i.NumMethods() == 0
}

// fmtCells: what fmt's %v reads when handed a value of static type t as `any`: for a pointer to a module struct
// every leaf field of the struct (value-nested structs expanded, unexported fields included) and the contents of
// its map / slice fields; pointers inside are printed as addresses and not followed.  A module interface stands
// for every module pointer type implementing it.
func (a *An) fmtCells(t types.Type) []string {
	var res []string
	switch u := t.Underlying().(type) {
	case *types.Pointer:
		if !isModuleStruct(u.Elem()) {
			return nil
		}
		var walk func(st types.Type, prefix string)
		walk = func(st types.Type, prefix string) {
			s := st.Underlying().(*types.Struct)
			for i := 0; i < s.NumFields(); i++ {
				f := s.Field(i)
				cell := prefix + "." + f.Name()
				if isModuleStruct(f.Type()) {
					walk(f.Type(), cell)
					continue
				}
				res = append(res, cell)
				switch f.Type().Underlying().(type) {
				case *types.Map, *types.Slice:
					res = append(res, cell+"[]")
				}
			}
		}
		walk(u.Elem(), typeName(u.Elem()))
	case *types.Interface:
		if n, ok := t.(*types.Named); ok && n.Obj().Pkg() != nil && inModulePath(n.Obj().Pkg().Path()) {
			for _, mt := range a.modTypes {
				if _, isPtr := mt.(*types.Pointer); isPtr && types.Implements(mt, u) {
					res = append(res, a.fmtCells(mt)...)
				}
			}
		}
	}
	return res
}

func reflSink(full string) (isSink bool, exportedOnly bool) {
	switch {
	case strings.HasPrefix(full, "github.com/qdm12/reprint."):
		return true, false
	case strings.HasPrefix(full, "encoding/json.Marshal"), strings.HasPrefix(full, "(*encoding/json.Encoder).Encode"):
		return true, true
	case strings.HasPrefix(full, "github.com/labstack/echo/v4.Context.JSON"):
		return true, true
	}
	return false, false
}

// ---------------------------------------------------------------- per-function analysis
func isMutexOp(cc *ssa.CallCommon) (op string) {
	fn := cc.StaticCallee()
	if fn == nil {
		return ""
	}
	switch fn.String() {
	case "(*sync.Mutex).Lock", "(*sync.RWMutex).Lock":
		return "Lock"
	case "(*sync.Mutex).Unlock", "(*sync.RWMutex).Unlock":
		return "Unlock"
	case "(*sync.RWMutex).RLock", "(*sync.RWMutex).RUnlock", "(*sync.Mutex).TryLock", "(*sync.RWMutex).TryLock", "(*sync.RWMutex).TryRLock":
		return "Other"
	}
	return ""
}

func sameAddr(x, y ssa.Value) bool {
	if x == y {
		return true
	}
	fx, ok1 := x.(*ssa.FieldAddr)
	fy, ok2 := y.(*ssa.FieldAddr)
	if ok1 && ok2 {
		return fx.Field == fy.Field && sameAddr(fx.X, fy.X)
	}
	return false
}

func chainBase(v ssa.Value) ssa.Value {
	for {
		f, ok := v.(*ssa.FieldAddr)
		if !ok {
			return v
		}
		v = f.X
	}
}

func (a *An) posOf(instr ssa.Instruction, operands ...ssa.Value) token.Pos {
	if instr.Pos().IsValid() {
		return instr.Pos()
	}
	for _, o := range operands {
		if o != nil && o.Pos().IsValid() {
			return o.Pos()
		}
	}
	b := instr.Block()
	last := token.NoPos
	for _, i := range b.Instrs {
		if i == instr {
			break
		}
		if i.Pos().IsValid() {
			last = i.Pos()
		}
	}
	if last.IsValid() {
		return last
	}
	return instr.Parent().Pos()
}

// objCells: the cells behind an address that is loaded / stored as a value of type t.  A whole module struct copied
// through a plain pointer (`x := *p`, `f(*p)`, a value-receiver method called on a pointer or on an interface
// holding a pointer - the compiler's wrapper does `(*p).M()`) is named like its fields are everywhere else, by
// the struct type (every leaf field incl. mutex words is then read / written at that site); everything else by
// the traced cell.
func (a *An) objCells(addr ssa.Value, t types.Type) []string {
	if _, named := t.(*types.Named); named && isModuleStruct(t) {
		switch addr.(type) {
		case *ssa.FieldAddr, *ssa.IndexAddr, *ssa.Global, *ssa.Alloc:
		default:
			return a.structCells(addr, newCtx())
		}
	}
	return a.cellsOf(addr, newCtx())
}

func (a *An) analyze(fn *ssa.Function) *fnInfo {
	if inf, ok := a.infos[fn]; ok {
		return inf
	}
	inf := &fnInfo{}
	a.infos[fn] = inf
	if len(fn.Blocks) == 0 {
		return inf
	}
	// ---- locking idiom
	type mop struct {
		op       string
		addr     ssa.Value
		block    int
		idx      int
		deferred bool
	}
	var mops []mop
	for bi, b := range fn.Blocks {
		for ii, instr := range b.Instrs {
			var cc *ssa.CallCommon
			deferred := false
			switch x := instr.(type) {
			case *ssa.Call:
				cc = &x.Call
			case *ssa.Defer:
				cc = &x.Call
				deferred = true
			case *ssa.Go:
				cc = &x.Call
			}
			if cc == nil {
				continue
			}
			if op := isMutexOp(cc); op != "" && len(cc.Args) > 0 {
				mops = append(mops, mop{op, cc.Args[0], bi, ii, deferred})
			}
		}
	}
	lockIdx := -1
	if len(mops) > 0 {
		ok := len(mops) == 2 && mops[0].op == "Lock" && !mops[0].deferred && mops[0].block == 0 &&
			mops[1].op == "Unlock" && mops[1].deferred && mops[1].block == 0 && mops[1].idx > mops[0].idx &&
			sameAddr(mops[0].addr, mops[1].addr)
		if ok {
			names := a.cellsOf(mops[0].addr, newCtx())
			if len(names) == 1 {
				li := &lockInfo{name: names[0]}
				if _, g := mops[0].addr.(*ssa.Global); g {
					li.global = true
				} else {
					li.base = chainBase(mops[0].addr)
				}
				inf.lock = li
				lockIdx = mops[0].idx
			} else {
				ok = false
			}
		}
		if !ok {
			inf.unknown = true
			a.note("unrecognised locking in " + fn.String() + ": treated as holding no lock")
		}
	}
	after := func(bi, ii int) bool { return inf.lock != nil && (bi != 0 || ii > lockIdx) }

	add := func(cells []string, mode string, pos token.Pos, al bool, base ssa.Value, refl bool) {
		if len(cells) == 0 {
			return
		}
		inf.accesses = append(inf.accesses, rawAccess{cells, mode, pos, al, base, refl})
	}
	expand := func(cells []string, t types.Type) []string {
		lp := leafPaths(t)
		if len(lp) == 1 && lp[0] == "" {
			return cells
		}
		var res []string
		for _, c := range cells {
			for _, s := range lp {
				res = append(res, c+s)
			}
		}
		return res
	}
	for bi, b := range fn.Blocks {
		for ii, instr := range b.Instrs {
			al := after(bi, ii)
			switch x := instr.(type) {
			case *ssa.UnOp:
				if x.Op == token.MUL {
					cells := expand(a.objCells(x.X, x.Type()), x.Type())
					add(cells, "R", a.posOf(instr, x.X), al, chainBase(x.X), false)
				}
			case *ssa.Store:
				cells := expand(a.objCells(x.Addr, x.Val.Type()), x.Val.Type())
				add(cells, "W", a.posOf(instr, x.Addr), al, chainBase(x.Addr), false)
			case *ssa.MapUpdate:
				add(a.contents(x.Map, newCtx()), "W", a.posOf(instr, x.Map), al, nil, false)
			case *ssa.Lookup:
				if _, ok := x.X.Type().Underlying().(*types.Map); ok {
					add(a.contents(x.X, newCtx()), "R", a.posOf(instr, x.X), al, nil, false)
				}
			case *ssa.Range:
				if _, ok := x.X.Type().Underlying().(*types.Map); ok {
					add(a.contents(x.X, newCtx()), "R", a.posOf(instr, x.X), al, nil, false)
				}
			case *ssa.MakeInterface:
				if _, ok := x.X.Type().Underlying().(*types.Map); ok { // handed to fmt-style formatting: contents are read
					add(a.contents(x.X, newCtx()), "R", a.posOf(instr, x.X), al, nil, true)
				}
				// a pointer to a module struct converted to `any` (argument of ui.Warning / fmt.Sprintf / ...): %v walks
				// the struct by reflection - every field, exported or not, is read without any lock
				if _, fresh := x.X.(*ssa.Alloc); !fresh && isEmptyInterface(x.Type()) {
					add(uniq(a.fmtCells(x.X.Type())), "R", a.posOf(instr, x.X), al, nil, true)
				}
			case *ssa.ChangeInterface:
				// the same for a module interface value (sensors.Sensor, fans.Fan, ...) converted to `any`
				if isEmptyInterface(x.Type()) {
					add(uniq(a.fmtCells(x.X.Type())), "R", a.posOf(instr, x.X), al, nil, true)
				}
			}
			var cc *ssa.CallCommon
			switch x := instr.(type) {
			case *ssa.Call:
				cc = &x.Call
			case *ssa.Defer:
				cc = &x.Call
			case *ssa.Go:
				cc = &x.Call
			}
			if cc == nil {
				continue
			}
			pos := a.posOf(instr)
			if op := isMutexOp(cc); op != "" && len(cc.Args) > 0 {
				add(a.cellsOf(cc.Args[0], newCtx()), "S", pos, false, nil, false)
				continue
			}
			if bi, ok := cc.Value.(*ssa.Builtin); ok && !cc.IsInvoke() {
				switch bi.Name() {
				case "len", "cap":
					if _, ok := cc.Args[0].Type().Underlying().(*types.Map); ok {
						add(a.contents(cc.Args[0], newCtx()), "R", pos, al, nil, false)
					}
				case "delete":
					add(a.contents(cc.Args[0], newCtx()), "W", pos, al, nil, false)
				case "append":
					add(a.contents(cc.Args[0], newCtx()), "W", pos, al, nil, false)
					if len(cc.Args) > 1 {
						add(a.contents(cc.Args[1], newCtx()), "R", pos, al, nil, false)
					}
				case "copy":
					add(a.contents(cc.Args[0], newCtx()), "W", pos, al, nil, false)
					add(a.contents(cc.Args[1], newCtx()), "R", pos, al, nil, false)
				case "clear":
					add(a.contents(cc.Args[0], newCtx()), "W", pos, al, nil, false)
				}
				continue
			}
			if sink, expOnly := reflSink(fullCallee(cc)); sink {
				for _, arg := range cc.Args {
					if !types.IsInterface(arg.Type()) {
						continue
					}
					var t types.Type = arg.Type()
					switch m := arg.(type) {
					case *ssa.MakeInterface:
						if _, fresh := m.X.(*ssa.Alloc); fresh {
							continue // freshly built value (e.g. &Result{...})
						}
						t = m.X.Type()
					case *ssa.ChangeInterface:
						t = m.X.Type()
					}
					var cells []string
					a.reflInto(t, "", expOnly, map[string]bool{}, &cells)
					if isModuleStruct(t) {
						a.reflCells(t, "", expOnly, map[string]bool{}, &cells)
					}
					add(uniq(cells), "R", pos, al, nil, true)
				}
				continue
			}
			if strings.HasPrefix(fullCallee(cc), "encoding/json.Unmarshal") && len(cc.Args) == 2 {
				// reflection WRITE through the target pointer: the cell and, for a map / slice target, the contents of
				// the value that ends up in it
				target := cc.Args[1]
				if mi, ok := target.(*ssa.MakeInterface); ok {
					target = mi.X
				}
				cells := a.cellsOf(target, newCtx())
				add(cells, "W", pos, al, nil, true)
				var cont []string
				for _, c := range cells {
					cont = append(cont, c+"[]")
				}
				for _, o := range a.rawAllocs(target, newCtx()) {
					if ar := o.Referrers(); ar != nil {
						for _, lr := range *ar {
							if ld, ok := lr.(*ssa.UnOp); ok && ld.Op == token.MUL {
								for _, s := range a.valueCells(ld, newCtx()) {
									cont = append(cont, s+"[]")
								}
							}
						}
					}
				}
				switch deref(target.Type()).Underlying().(type) {
				case *types.Map, *types.Slice:
					add(uniq(cont), "W", pos, al, nil, true)
				}
				continue
			}
			if ts := a.resolve(cc); len(ts) > 0 {
				inf.calls = append(inf.calls, callInfo{ts, al})
			}
			if ts := a.callbackArgs(cc); len(ts) > 0 {
				inf.calls = append(inf.calls, callInfo{ts, al})
			}
		}
	}
	return inf
}

// ---------------------------------------------------------------- classes
// singletonTypes: module struct types of which a package-level variable holds an instance (directly, by pointer,
// or inside a slice / array / map / module interface).  Objects of such a type are not one-per-fan / one-per-sensor:
// a constructor may hand the same package-level object to several owners (e.g. `return sharedLoop`), so every
// cell of the type is shared by all goroutines, whatever package the type lives in.
var singletonTypes = map[string]string{}

// aliasedCells: field cells into which some function stores a map / slice / pointer taken from a package-level
// variable (`f.pwmMap = identityPwmMap`).  What hangs off such a field ("F[]", "F*") may be the one package-level
// object for every owner, so everything behind the field is shared by all goroutines.
var aliasedCells = map[string]string{}

func classOf(cell string) string {
	if strings.HasPrefix(cell, "?") {
		return "OOther"
	}
	for t := range singletonTypes {
		if strings.HasPrefix(cell, t+".") {
			return "OGlobal"
		}
	}
	for c := range aliasedCells {
		if strings.HasPrefix(cell, c+"[") || strings.HasPrefix(cell, c+"*") { // what the field refers to, not the field slot itself
			return "OGlobal"
		}
	}
	head := cell
	if i := strings.IndexAny(cell, ".:"); i >= 0 {
		if cell[i] == ':' {
			return "OGlobal"
		}
		head = cell[:i]
	}
	switch head {
	case "fans":
		return "OFan"
	case "controller":
		return "OController"
	case "control_loop":
		return "OControlLoop"
	case "curves":
		return "OCurve"
	case "sensors":
		return "OSensor"
	case "configuration":
		return "OConfig"
	case "util":
		if strings.HasPrefix(cell, "util.PidLoop.") {
			return "OPid"
		}
	}
	return "OOther"
}

// ---------------------------------------------------------------- main
func collectFuncs(fn *ssa.Function, out *[]*ssa.Function, seen map[*ssa.Function]bool) {
	if fn == nil || seen[fn] {
		return
	}
	seen[fn] = true
	*out = append(*out, fn)
	for _, an := range fn.AnonFuncs {
		collectFuncs(an, out, seen)
	}
}

func (a *An) containsCallTo(fn *ssa.Function, key string) bool {
	for _, b := range fn.Blocks {
		for _, instr := range b.Instrs {
			var cc *ssa.CallCommon
			switch x := instr.(type) {
			case *ssa.Call:
				cc = &x.Call
			case *ssa.Defer:
				cc = &x.Call
			case *ssa.Go:
				cc = &x.Call
			}
			if cc != nil && calleeKey(cc) == key {
				return true
			}
		}
	}
	return false
}

func main() {
	if len(os.Args) < 3 {
		die("usage: accesses <repo> <modfile>")
	}
	cfg := &packages.Config{
		Mode: packages.NeedName | packages.NeedFiles | packages.NeedCompiledGoFiles | packages.NeedImports |
			packages.NeedTypes | packages.NeedTypesSizes | packages.NeedSyntax | packages.NeedTypesInfo,
		Dir:        os.Args[1],
		BuildFlags: []string{"-modfile=" + os.Args[2]},
		Env:        append(os.Environ(), "CGO_ENABLED=0"),
	}
	pkgs, err := packages.Load(cfg, "./internal/...")
	if err != nil {
		die("load: %v", err)
	}
	if len(pkgs) == 0 {
		die("no packages loaded")
	}
	nerr := 0
	for _, p := range pkgs {
		for _, e := range p.Errors {
			fmt.Fprintln(os.Stderr, "accesses:", e)
			nerr++
		}
	}
	if nerr > 0 {
		die("%d package errors: the source does not type-check", nerr)
	}
	prog, spkgs := ssautil.Packages(pkgs, ssa.InstantiateGenerics)
	prog.Build()

	a := &An{prog: prog, callers: map[*ssa.Function][]ssa.CallInstruction{}, closures: map[*ssa.Function][]*ssa.MakeClosure{},
		infos: map[*ssa.Function]*fnInfo{}, noteSeen: map[string]bool{}, implCache: map[string][]*ssa.Function{},
		made: map[string][]types.Type{}, flows: map[string][]string{}, flowCache: map[string]map[string]types.Type{}}
	byName := map[string]*ssa.Function{}
	seen := map[*ssa.Function]bool{}
	for _, sp := range spkgs {
		if sp == nil {
			die("a package has no SSA form")
		}
		names := make([]string, 0, len(sp.Members))
		for n := range sp.Members {
			names = append(names, n)
		}
		sort.Strings(names)
		for _, n := range names {
			switch m := sp.Members[n].(type) {
			case *ssa.Function:
				collectFuncs(m, &a.allFuncs, seen)
			case *ssa.Type:
				t := m.Type()
				if _, isNamed := t.(*types.Named); !isNamed {
					continue
				}
				if tp := t.(*types.Named).TypeParams(); tp != nil && tp.Len() > 0 {
					continue
				}
				a.modTypes = append(a.modTypes, t, types.NewPointer(t))
				for _, tt := range []types.Type{t, types.NewPointer(t)} {
					ms := prog.MethodSets.MethodSet(tt)
					for i := 0; i < ms.Len(); i++ {
						if fn := prog.MethodValue(ms.At(i)); fn != nil {
							collectFuncs(fn, &a.allFuncs, seen)
						}
					}
				}
			}
		}
	}
	for _, fn := range a.allFuncs {
		byName[fn.String()] = fn
	}
	a.indexInterfaces()
	// package-level instances of module struct types (see singletonTypes)
	for _, sp := range spkgs {
		for name, m := range sp.Members {
			g, ok := m.(*ssa.Global)
			if !ok || !inModulePath(sp.Pkg.Path()) {
				continue
			}
			seenT := map[string]bool{}
			var walk func(t types.Type, depth int)
			walk = func(t types.Type, depth int) {
				if depth > 6 || seenT[t.String()] {
					return
				}
				seenT[t.String()] = true
				if isModuleStruct(t) {
					if _, named := t.(*types.Named); named {
						if _, dup := singletonTypes[typeName(t)]; !dup {
							singletonTypes[typeName(t)] = shortPkg(sp.Pkg) + ":" + name
						}
					}
					st := t.Underlying().(*types.Struct)
					for i := 0; i < st.NumFields(); i++ {
						if isModuleStruct(st.Field(i).Type()) { // value-nested structs are part of the same object
							walk(st.Field(i).Type(), depth+1)
						}
					}
					return
				}
				switch u := t.Underlying().(type) {
				case *types.Pointer:
					walk(u.Elem(), depth+1)
				case *types.Slice:
					walk(u.Elem(), depth+1)
				case *types.Array:
					walk(u.Elem(), depth+1)
				case *types.Map:
					walk(u.Elem(), depth+1)
				case *types.Interface:
					if n, ok := t.(*types.Named); ok && n.Obj().Pkg() != nil && inModulePath(n.Obj().Pkg().Path()) {
						for _, mt := range a.modTypes {
							if !types.IsInterface(mt) && types.Implements(mt, u) {
								walk(mt, depth+1)
							}
						}
					}
				}
			}
			walk(deref(g.Type()), 0)
		}
	}
	for _, fn := range a.allFuncs {
		for _, b := range fn.Blocks {
			for _, instr := range b.Instrs {
				st, ok := instr.(*ssa.Store)
				if !ok {
					continue
				}
				switch st.Val.Type().Underlying().(type) {
				case *types.Map, *types.Slice, *types.Pointer:
				default:
					continue
				}
				if _, isField := st.Addr.(*ssa.FieldAddr); !isField {
					continue
				}
				global := ""
				for _, o := range a.origins(st.Val, newCtx()) {
					if i := strings.Index(o.cell, ":"); i > 0 && !strings.ContainsAny(o.cell[:i], ".?") {
						global = o.cell
					}
				}
				if global == "" {
					continue
				}
				for _, c := range a.cellsOf(st.Addr, newCtx()) {
					if !strings.Contains(c, ":") {
						aliasedCells[c] = global
					}
				}
			}
		}
	}
	for c, g := range aliasedCells {
		a.note("field " + c + " is assigned a reference taken from the package-level " + g + ": what it refers to is shared by all goroutines")
	}
	for t, g := range singletonTypes {
		a.note("type " + t + " has a package-level instance (" + g + "): its cells are shared by all goroutines")
	}
	// call-site and closure indices (for parameter / free-variable tracing)
	for _, fn := range a.allFuncs {
		for _, b := range fn.Blocks {
			for _, instr := range b.Instrs {
				var cc *ssa.CallCommon
				switch x := instr.(type) {
				case *ssa.Call:
					cc = &x.Call
				case *ssa.Defer:
					cc = &x.Call
				case *ssa.Go:
					cc = &x.Call
				case *ssa.MakeClosure:
					if f, ok := x.Fn.(*ssa.Function); ok {
						a.closures[f] = append(a.closures[f], x)
					}
				}
				if cc != nil {
					for _, t := range a.resolve(cc) {
						a.callers[t] = append(a.callers[t], instr.(ssa.CallInstruction))
					}
					for _, t := range a.callbackArgs(cc) {
						a.callers[t] = append(a.callers[t], nil)
					}
				}
			}
		}
	}

	get := func(name string) *ssa.Function {
		fn := byName[name]
		if fn == nil {
			die("root function %s not found", name)
		}
		return fn
	}
	runDaemon := get(modPath + "/internal.RunDaemon")
	ctrlRun := get("(*" + modPath + "/internal/controller.DefaultFanController).Run")

	type rootSet struct {
		kind string
		fns  []*ssa.Function
	}
	var roots []rootSet
	claimed := map[*ssa.Function]bool{}
	anonCalling := func(parent *ssa.Function, key string) []*ssa.Function {
		var res []*ssa.Function
		for _, an := range parent.AnonFuncs {
			if a.containsCallTo(an, key) {
				res = append(res, an)
				claimed[an] = true
			}
		}
		return res
	}
	must := func(kind string, fns []*ssa.Function) {
		if len(fns) == 0 {
			die("no root found for goroutine kind %s: the concurrency structure changed", kind)
		}
		roots = append(roots, rootSet{kind, fns})
	}
	must("KSensorMon", anonCalling(runDaemon, "internal.SensorMonitor.Run"))
	must("KRpmMon", anonCalling(ctrlRun, "controller.DefaultFanController.measureRpm"))
	must("KControl", anonCalling(ctrlRun, "controller.DefaultFanController.UpdateFanSpeed"))
	must("KPrelude", anonCalling(runDaemon, "controller.FanController.Run"))
	var api, metrics []*ssa.Function
	for _, fn := range a.allFuncs {
		p := funcPkg(fn)
		if p == nil || fn.Parent() != nil || fn.Synthetic != "" {
			continue
		}
		if p.Path() == modPath+"/internal/api" && fn.Signature.Recv() == nil && fn.Signature.Params().Len() == 1 &&
			strings.HasSuffix(fn.Signature.Params().At(0).Type().String(), "echo/v4.Context") && fn.Signature.Results().Len() == 1 {
			api = append(api, fn)
		}
		if p.Path() == modPath+"/internal/statistics" && fn.Signature.Recv() != nil && fn.Name() == "Collect" {
			metrics = append(metrics, fn)
		}
	}
	must("KApi", api)
	must("KMetrics", metrics)
	must("KWebStart", anonCalling(runDaemon, "internal.createWebServer"))
	var aux []*ssa.Function
	for _, parent := range []*ssa.Function{runDaemon, ctrlRun} {
		for _, an := range parent.AnonFuncs {
			if !claimed[an] {
				aux = append(aux, an)
			}
		}
	}
	roots = append(roots, rootSet{"KAux", aux})

	var out []Access
	rootNames := map[string][]string{}
	for _, rs := range roots {
		type state struct {
			fn    *ssa.Function
			locks string
		}
		var work []state
		visited := map[state]bool{}
		push := func(fn *ssa.Function, locks []string) {
			s := state{fn, strings.Join(locks, ",")}
			if !visited[s] {
				visited[s] = true
				work = append(work, s)
			}
		}
		for _, fn := range rs.fns {
			rootNames[rs.kind] = append(rootNames[rs.kind], fn.String())
			push(fn, nil)
		}
		for len(work) > 0 {
			s := work[len(work)-1]
			work = work[:len(work)-1]
			var inherited []string
			if s.locks != "" {
				inherited = strings.Split(s.locks, ",")
			}
			inf := a.analyze(s.fn)
			for _, ra := range inf.accesses {
				locks := append([]string{}, inherited...)
				if inf.lock != nil && ra.afterLock && ra.mode != "S" {
					if inf.lock.global || (ra.base != nil && ra.base == inf.lock.base) {
						locks = append(locks, inf.lock.name)
					}
				}
				locks = uniq(locks)
				p := prog.Fset.Position(ra.pos)
				file := p.Filename
				if strings.HasPrefix(file, os.Args[1]+"/") {
					file = file[len(os.Args[1])+1:]
				}
				for _, c := range ra.cells {
					out = append(out, Access{Kind: rs.kind, Loc: c, Class: classOf(c), Mode: ra.mode, Locks: locks,
						Func: s.fn.String(), File: file, Line: p.Line, Refl: ra.refl})
				}
			}
			for _, ci := range inf.calls {
				locks := append([]string{}, inherited...)
				if inf.lock != nil && inf.lock.global && ci.afterLock {
					locks = append(locks, inf.lock.name)
				}
				locks = uniq(locks)
				for _, t := range ci.targets {
					push(t, locks)
				}
			}
		}
	}
	sort.SliceStable(out, func(i, j int) bool {
		x, y := out[i], out[j]
		if x.Kind != y.Kind {
			return x.Kind < y.Kind
		}
		if x.Loc != y.Loc {
			return x.Loc < y.Loc
		}
		if x.Mode != y.Mode {
			return x.Mode < y.Mode
		}
		if x.File != y.File {
			return x.File < y.File
		}
		return x.Line < y.Line
	})
	sort.Strings(a.notes)
	res := map[string]interface{}{"accesses": out, "notes": a.notes, "roots": rootNames,
		"functions": len(a.allFuncs), "packages": len(pkgs)}
	enc := json.NewEncoder(os.Stdout)
	enc.SetIndent("", " ")
	if err := enc.Encode(res); err != nil {
		die("encode: %v", err)
	}
}
