"""Translate /repo's current source into coq/gen/Accesses.v: the table of shared-memory accesses per
goroutine kind that property C20 is proved over (DESIGN.md 2.5 and section 5, C20).

The work is done by the Go program tools/accesses (go/packages + go/ssa, see the comment at the top of
tools/accesses/main.go for the call-graph, lock-set and reflection rules).  This wrapper builds it, runs it
on the working tree through the gosensors stub modfile (exactly like lib/core.py:build_harness), caches the
result by the digest of the Go sources, groups the accesses by (kind, cell, mode, lockset) and emits

    Definition table : list access := [ mkAccess <kind> "<cell>" <class> <mode> [<locks>] <file code> <line>; ... ].

It also leaves the full, ungrouped table (every site, with function names) in work/accesses/accesses.json
for the dynamic race driver (harness/overlay/cmd/verifharness/drv_race.go) and for replay files.
Fails closed: any load/type-check/root-finding problem raises, which empties gen/Accesses.v."""
import hashlib, json, os, subprocess, tempfile

TARGET = 'Accesses.v'

VERIF = os.path.dirname(os.path.dirname(os.path.abspath(__file__)))
TOOL_SRC = os.path.join(VERIF, 'tools', 'accesses')
CACHE = os.path.join(VERIF, 'work', 'accesses')
STUB = os.path.join(VERIF, 'harness', 'gosensors_stub')
GOENV = dict(os.environ, GOFLAGS='-mod=mod', GOPROXY='off', GOSUMDB='off', GOTOOLCHAIN='local', CGO_ENABLED='0')

KINDS = ['KSensorMon', 'KRpmMon', 'KControl', 'KPrelude', 'KApi', 'KMetrics', 'KWebStart', 'KAux']
CLASSES = ['OFan', 'OController', 'OControlLoop', 'OCurve', 'OSensor', 'OPid', 'OConfig', 'OGlobal', 'OOther']
MODES = {'R': 'MR', 'W': 'MW', 'S': 'MS'}


def _digest(paths):
    h = hashlib.sha256()
    for p in sorted(paths):
        h.update(p.encode())
        h.update(b'\0')
        with open(p, 'rb') as f:
            h.update(f.read())
        h.update(b'\0')
    return h.hexdigest()[:20]


def _go_sources(repo):
    res = []
    for root, dirs, files in os.walk(repo):
        dirs[:] = sorted(d for d in dirs if d not in ('.git', 'node_modules'))
        for fn in files:
            if (fn.endswith('.go') and not fn.endswith('_test.go')) or fn in ('go.mod', 'go.sum'):
                res.append(os.path.join(root, fn))
    return res


def _tool_sources():
    return [os.path.join(TOOL_SRC, f) for f in os.listdir(TOOL_SRC) if f.endswith('.go') or f in ('go.mod', 'go.sum')]


def _atomic_write(path, text):
    os.makedirs(os.path.dirname(path), exist_ok=True)
    fd, tmp = tempfile.mkstemp(dir=os.path.dirname(path), prefix='.tmp_')
    with os.fdopen(fd, 'w') as f:
        f.write(text)
    os.replace(tmp, path)


def _build_tool():
    d = _digest(_tool_sources() + [os.path.join(STUB, f) for f in sorted(os.listdir(STUB))])
    binpath = os.path.join(CACHE, 'accesses-' + d)
    if not os.path.exists(binpath):
        os.makedirs(CACHE, exist_ok=True)
        tmp = binpath + '.%d.tmp' % os.getpid()
        p = subprocess.run(['go', 'build', '-o', tmp, '.'], cwd=TOOL_SRC, env=GOENV, timeout=600,
                           stdout=subprocess.PIPE, stderr=subprocess.STDOUT, text=True)
        if p.returncode != 0:
            raise RuntimeError('gen_accesses: building tools/accesses failed: ' + p.stdout[-1500:])
        os.replace(tmp, binpath)
        for f in os.listdir(CACHE):  # drop older tool binaries
            if f.startswith('accesses-') and not f.endswith('.tmp') and os.path.join(CACHE, f) != binpath:
                try:
                    os.remove(os.path.join(CACHE, f))
                except OSError:
                    pass
    return binpath, d


def run_translator(repo):
    """Returns the translator's JSON (dict) for the current working tree, cached by source digest."""
    binpath, tool_digest = _build_tool()
    key = _digest(_go_sources(repo)) + '-' + tool_digest[:8]
    cached = os.path.join(CACHE, 'table-%s.json' % key)
    if os.path.exists(cached):
        try:
            return json.load(open(cached)), key, True
        except Exception:
            pass
    mod = open(os.path.join(repo, 'go.mod')).read()
    mod += '\nreplace github.com/md14454/gosensors => %s\n' % STUB
    modfile = os.path.join(CACHE, 'go.verif.%d.mod' % os.getpid())
    _atomic_write(modfile, mod)
    sumfile = modfile[:-4] + '.sum'
    _atomic_write(sumfile, open(os.path.join(repo, 'go.sum')).read())
    try:
        p = subprocess.run([binpath, repo, modfile], cwd=repo, env=GOENV, timeout=300,
                           stdout=subprocess.PIPE, stderr=subprocess.PIPE, text=True)
    finally:
        for f in (modfile, sumfile):
            try:
                os.remove(f)
            except OSError:
                pass
    if p.returncode != 0:
        raise RuntimeError('gen_accesses: translator failed on the current source: ' + p.stderr[-1500:])
    data = json.loads(p.stdout)
    if not data.get('accesses'):
        raise RuntimeError('gen_accesses: translator produced an empty table')
    for f in os.listdir(CACHE):  # keep the cache small
        if f.startswith('table-') and f.endswith('.json'):
            try:
                os.remove(os.path.join(CACHE, f))
            except OSError:
                pass
    _atomic_write(cached, json.dumps(data))
    return data, key, False


def table_json_path(repo):
    """Where generate(repo) leaves the full table (per repo path, so that checks of different trees do not mix)."""
    repo = os.path.abspath(repo)
    if repo == '/repo':
        return os.path.join(CACHE, 'accesses.json')
    return os.path.join(CACHE, 'accesses-%s.json' % hashlib.sha256(repo.encode()).hexdigest()[:10])


def _coq_string(s):
    return '"' + s.replace('"', '""') + '"'


def group(data):
    """One table entry per (kind, cell, mode, lockset); representative position = smallest (file, line)."""
    groups = {}
    for a in data['accesses']:
        k = (a['kind'], a['loc'], a['mode'], tuple(a['locks'] or []))
        g = groups.setdefault(k, {'class': a['class'], 'sites': []})
        g['sites'].append((a['file'], a['line'], a['func'], bool(a.get('refl'))))
    return groups


def generate(repo):
    data, key, hit = run_translator(repo)
    groups = group(data)
    files = sorted({s[0] for g in groups.values() for s in g['sites']})
    fcode = {f: i + 1 for i, f in enumerate(files)}
    out = []
    out.append('(* GENERATED by tools/gen_accesses.py (tools/accesses, go/ssa) from /repo - do not edit.')
    out.append('   One entry per (goroutine kind, memory cell, mode, lockset); position = first site.')
    out.append('   cell syntax: pkg.Type.f1.f2 = field path | pkg:name = package variable | suffix * = pointee of the')
    out.append('   pointer stored in the cell | suffix [] = contents of the map/slice stored in the cell | ?T = untraced value of type T')
    out.append('   %d accesses at %d sites in %d functions of %d packages' % (
        len(groups), len(data['accesses']), data.get('functions', 0), data.get('packages', 0)))
    out.append('   goroutine roots:')
    for k in KINDS:
        out.append('     %-11s %s' % (k, ', '.join(r.replace('github.com/markusressel/fan2go/', '') for r in data['roots'].get(k, []))))
    out.append('   file codes:')
    for f in files:
        out.append('     %3d = %s' % (fcode[f], f))
    for n in data.get('notes', []):
        out.append('   note: ' + n.replace('*)', '* )').replace('(*', '( *').replace('github.com/markusressel/fan2go/', ''))
    out = [out[0]] + [l.replace('(*', '( *').replace('*)', '* )') for l in out[1:]]   # no nested comment tokens
    out.append('*)')
    out.append('From Coq Require Import ZArith List String.')
    out.append('From F2G Require Import Model.Races.')
    out.append('Import ListNotations.')
    out.append('Open Scope string_scope.')
    out.append('Open Scope Z_scope.')
    out.append('')
    out.append('Definition table : list access := [')
    rows = []
    order = {k: i for i, k in enumerate(KINDS)}
    for (kind, loc, mode, locks) in sorted(groups, key=lambda k: (order.get(k[0], 99), k[1], k[2], k[3])):
        g = groups[(kind, loc, mode, locks)]
        if kind not in KINDS or g['class'] not in CLASSES or mode not in MODES:
            raise RuntimeError('gen_accesses: unknown kind/class/mode in %r' % ((kind, g['class'], mode),))
        f, line = min((s[0], s[1]) for s in g['sites'])
        rows.append('  mkAccess %s %s %s %s [%s] %d %d' % (
            kind, _coq_string(loc), g['class'], MODES[mode], '; '.join(_coq_string(l) for l in locks), fcode[f], line))
    out.append(';\n'.join(rows))
    out.append('].')
    text = '\n'.join(out) + '\n'
    # full table for the dynamic driver and for replay files
    full = {'digest': key, 'kinds': KINDS, 'roots': data['roots'], 'notes': data.get('notes', []),
            'accesses': data['accesses']}
    _atomic_write(table_json_path(repo), json.dumps(full))
    return text, '%d entries (%d sites) digest %s%s' % (len(groups), len(data['accesses']), key, ' cached' if hit else '')


if __name__ == '__main__':
    import sys, time
    t0 = time.time()
    text, note = generate(sys.argv[1] if len(sys.argv) > 1 else '/repo')
    sys.stdout.write(text)
    sys.stderr.write('%s (%.1fs)\n' % (note, time.time() - t0))
