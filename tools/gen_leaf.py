"""Translate the expression-level pure subset of Go (params of type int/float64;
body = chain of `if cmp { return e }` [else { return e }] and a final `return e`;
arithmetic, comparisons, float64(x) conversions) into Gallina: coq/gen/Leaf.v.
Proofs/LeafTie.v proves each translated function equal to the hand-written model
by reflexivity, so an edited operator or comparison in the Go source breaks a
proof obligation directly (DESIGN 2.5)."""
import os, re

TARGET = 'Leaf.v'

FUNCS = [  # (file, Go name)
    ('internal/util/math.go', 'Coerce'),
    ('internal/util/math.go', 'Ratio'),
    ('internal/util/math.go', 'UpdateSimpleMovingAvg'),
    ('internal/util/math.go', 'getClosest'),
]

TOK = re.compile(r'\s*(?:(\d+\.\d*|\d+)|([A-Za-z_]\w*)|(<=|>=|==|!=|&&|\|\||[-+*/()<>{},!]))')


def tokenize(s):
    pos, out = 0, []
    s = re.sub(r'//[^\n]*', '', s)
    while pos < len(s):
        if s[pos:].strip() == '':
            break
        m = TOK.match(s, pos)
        if not m:
            raise ValueError('gen_leaf: cannot tokenize at %r' % s[pos:pos + 30])
        num, ident, op = m.groups()
        out.append(('num', num) if num else ('id', ident) if ident else ('op', op))
        pos = m.end()
    return out


class P:
    def __init__(self, toks, env):
        self.t, self.i, self.env = toks, 0, env

    def peek(self):
        return self.t[self.i] if self.i < len(self.t) else ('eof', '')

    def eat(self, kind=None, val=None):
        k, v = self.peek()
        if (kind and k != kind) or (val is not None and v != val):
            raise ValueError('gen_leaf: expected %s %s, got %s %s' % (kind, val, k, v))
        self.i += 1
        return v

    # expressions: returns (ast)
    def expr(self):
        return self.cmp()

    def cmp(self):
        l = self.add()
        k, v = self.peek()
        if k == 'op' and v in ('<', '>', '<=', '>=', '==', '!='):
            self.eat()
            r = self.add()
            return ('cmp', v, l, r)
        return l

    def add(self):
        l = self.mul()
        while self.peek() in (('op', '+'), ('op', '-')):
            op = self.eat()
            r = self.mul()
            l = ('bin', op, l, r)
        return l

    def mul(self):
        l = self.unary()
        while self.peek() in (('op', '*'), ('op', '/')):
            op = self.eat()
            r = self.unary()
            l = ('bin', op, l, r)
        return l

    def unary(self):
        if self.peek() == ('op', '-'):
            self.eat()
            return ('neg', self.unary())
        if self.peek() == ('op', '+'):
            self.eat()
            return self.unary()
        return self.atom()

    def atom(self):
        k, v = self.peek()
        if k == 'num':
            self.eat()
            return ('num', v)
        if k == 'id':
            self.eat()
            if v in ('float64', 'int') and self.peek() == ('op', '('):
                self.eat()
                e = self.expr()
                self.eat('op', ')')
                return ('conv', v, e)
            if v not in self.env:
                raise ValueError('gen_leaf: identifier %s outside the pure subset' % v)
            return ('var', v)
        if (k, v) == ('op', '('):
            self.eat()
            e = self.expr()
            self.eat('op', ')')
            return e
        raise ValueError('gen_leaf: unexpected token %s %s' % (k, v))

    # statements
    def block(self):
        """returns a Coq-ish AST: ('ret', e) | ('if', c, then, else)"""
        k, v = self.peek()
        if (k, v) == ('id', 'return'):
            self.eat()
            return ('ret', self.expr())
        if (k, v) == ('id', 'if'):
            self.eat()
            c = self.expr()
            self.eat('op', '{')
            th = self.block()
            self.eat('op', '}')
            if self.peek() == ('id', 'else'):
                self.eat()
                self.eat('op', '{')
                el = self.block()
                self.eat('op', '}')
                if self.peek()[0] != 'eof' and self.peek() != ('op', '}'):
                    raise ValueError('gen_leaf: statement after if/else')
                return ('if', c, th, el)
            el = self.block()
            return ('if', c, th, el)
        raise ValueError('gen_leaf: statement outside the pure subset at %s %s' % (k, v))


def typeof(e, env):
    k = e[0]
    if k == 'num':
        return 'untyped'
    if k == 'var':
        return env[e[1]]
    if k == 'conv':
        return e[1]
    if k == 'neg':
        return typeof(e[1], env)
    if k == 'bin':
        a, b = typeof(e[2], env), typeof(e[3], env)
        if a == 'untyped':
            return b
        if b == 'untyped' or a == b:
            return a
        raise ValueError('gen_leaf: mixed types %s %s' % (a, b))
    raise ValueError('gen_leaf: typeof %r' % (e,))


def emit(e, env, want):
    """Gallina for expression e evaluated at Go type `want` ('int' | 'float64')."""
    k = e[0]
    if k == 'num':
        if want == 'float64':
            return '%s%%float' % float.hex(float(e[1]))
        if '.' in e[1]:
            raise ValueError('gen_leaf: float literal in int context')
        return e[1]
    if k == 'var':
        if env[e[1]] != want:
            raise ValueError('gen_leaf: %s used at %s' % (e[1], want))
        return e[1] + "_"
    if k == 'conv':
        inner = typeof(e[2], env)
        if inner == 'untyped':
            inner = e[1]
        s = emit(e[2], env, inner)
        if e[1] == want == 'float64':
            return s if inner == 'float64' else '(i2f %s)' % s
        if e[1] == want == 'int':
            return s if inner == 'int' else '(f2i %s)' % s
        raise ValueError('gen_leaf: conversion %s used at %s' % (e[1], want))
    if k == 'neg':
        s = emit(e[1], env, want)
        return '(PrimFloat.opp %s)' % s if want == 'float64' else '(- %s)' % s
    if k == 'bin':
        a, b = emit(e[2], env, want), emit(e[3], env, want)
        if want == 'float64':
            f = {'+': 'PrimFloat.add', '-': 'PrimFloat.sub', '*': 'PrimFloat.mul', '/': 'PrimFloat.div'}[e[1]]
            return '(%s %s %s)' % (f, a, b)
        if e[1] == '/':
            return '(Z.quot %s %s)' % (a, b)
        return '(%s %s %s)' % (a, e[1], b)
    raise ValueError('gen_leaf: emit %r' % (e,))


def emit_cmp(c, env):
    if c[0] != 'cmp':
        raise ValueError('gen_leaf: condition is not a comparison')
    _, op, l, r = c
    t = typeof(l, env)
    if t == 'untyped':
        t = typeof(r, env)
    if t == 'untyped':
        raise ValueError('gen_leaf: constant comparison')
    a, b = emit(l, env, t), emit(r, env, t)
    if t == 'float64':
        return {'<': '(PrimFloat.ltb %s %s)' % (a, b), '>': '(PrimFloat.ltb %s %s)' % (b, a),
                '<=': '(PrimFloat.leb %s %s)' % (a, b), '>=': '(PrimFloat.leb %s %s)' % (b, a),
                '==': '(PrimFloat.eqb %s %s)' % (a, b), '!=': '(negb (PrimFloat.eqb %s %s))' % (a, b)}[op]
    return {'<': '(%s <? %s)' % (a, b), '>': '(%s <? %s)' % (b, a),
            '<=': '(%s <=? %s)' % (a, b), '>=': '(%s <=? %s)' % (b, a),
            '==': '(%s =? %s)' % (a, b), '!=': '(negb (%s =? %s))' % (a, b)}[op]


def emit_block(b, env, ret):
    if b[0] == 'ret':
        return emit(b[1], env, ret)
    _, c, th, el = b
    return 'if %s then %s else %s' % (emit_cmp(c, env), emit_block(th, env, ret), emit_block(el, env, ret))


def translate(src, name):
    m = re.search(r'^func %s\(([^)]*)\)\s*(\w+)\s*\{\n(.*?)^\}' % re.escape(name), src, re.M | re.S)
    if not m:
        raise ValueError('gen_leaf: function %s not found' % name)
    params, ret, body = m.groups()
    env, order = {}, []
    pending = []
    for part in [p.strip() for p in params.split(',') if p.strip()]:
        bits = part.split()
        pending.append(bits[0])
        if len(bits) == 2:
            for nm in pending:
                env[nm] = bits[1]
                order.append(nm)
            pending = []
    if pending or any(t not in ('int', 'float64') for t in env.values()) or ret not in ('int', 'float64'):
        raise ValueError('gen_leaf: signature of %s outside the pure subset' % name)
    p = P(tokenize(body), env)
    blk = p.block()
    if p.peek()[0] != 'eof':
        raise ValueError('gen_leaf: trailing statements in %s' % name)
    cty = {'int': 'Z', 'float64': 'float'}
    args = ' '.join('(%s_ : %s)' % (nm, cty[env[nm]]) for nm in order)
    return 'Definition go_%s %s : %s :=\n  %s.' % (name, args, cty[ret], emit_block(blk, env, ret))


def generate(repo):
    out = ['(* GENERATED by tools/gen_leaf.py from /repo — do not edit *)',
           'From Coq Require Import ZArith Bool Floats.',
           'From F2G Require Import Go.GoFloat.',
           'Open Scope Z_scope.']
    for rel, name in FUNCS:
        src = open(os.path.join(repo, rel)).read()
        out.append(translate(src, name))
    return '\n'.join(out) + '\n', '%d functions' % len(FUNCS)


if __name__ == '__main__':
    import sys
    print(generate(sys.argv[1] if len(sys.argv) > 1 else '/repo')[0])
