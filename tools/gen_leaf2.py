"""gen_leaf2: translate a stated statement-level subset of Go into Gallina (coq/gen/Leaf2.v).

The syntax trees come from tools/leaf2 (go/parser + go/ast, standard library only); this module turns them
into Gallina over the project's Go-semantics layer (Go/GoFloat.v) and the TYPES of the model
(records, outcome/enum inductives).  Proofs/LeafTie2_<fn>.v prove every translated function equal to the
hand-written model function, so an edited operator, comparison, constant, branch or statement order in the
translated Go functions breaks a proof obligation directly (DESIGN 2.5).

THE SUBSET (anything else raises OutOfSubset for that function only):

  Func   ::= func [(r *T)] name(params) results { Stmt* }  |  a FRAGMENT: a run of consecutive statements of a function
             body located structurally (the statements after a named anchor statement / the unique top-level switch), whose
             free variables are declared in the claim (the rest of such a function is I/O and stays with the harness)
  Stmt   ::= x := e | var x [T] [= e] | x = e | x op= e (op in + - * /) | x++ | x--      (lets; Go's zero values)
           | r.f = e | r.f op= e | r.f.g op= e | r.f = &x      receiver (sub)field update -> record / tuple result
           | if c { Stmt* } [else if ... | else { Stmt* }]      joined by a tuple of the variables assigned; when a branch
                                                               returns or can panic the continuation is duplicated instead
           | if p != nil { ... } / if p == nil { ... }          p of type *int or a nil-able map -> match on option
           | return e, ...      (T; (T, error) with declared error values; (bool, error) with errors.New("<declared text>"))
           | for _, v := range xs { Stmt* } | for i, v := range xs { Stmt* }   -> fold_left (no break/continue/return/panic inside)
           | the idiom `for k := range *m { keys = append(keys, k) }; sort.Ints(keys); for _, k := range keys {..(*m)[k]..}`
             -> fold_left over the key-sorted association list of m
           | switch tag { case C1: ... default: ... }           tag a declared string enumeration -> match on the inductive
           | ui.Debug/Info/Warning/Error(...)                   logging only: skipped (each one is named in the output)
           | ui.Fatal(...)                                      pterm fatal panics -> Crash (outcome functions only)
           | x := r.g.M(args) / r.M()  with M a claimed method  -> let '(g', x) := go_M g args / let '(fields) := go_M fields
           | fan.SetRpmAvg(e)  (a declared effect call)         -> an `option` output of the fragment
  Expr   ::= int/float literal | x | r.f | named constant (MaxPwmValue ... -> gen.Consts) | -e | +e | !e | (e) | &x (x an int variable)
           | e + e | e - e | e * e | e / e | e & e | e < e | <= | > | >= | == | != | e && e | e || e
           | p == nil | p != nil | p != nil && e(*p)
           | float64(e) | int(e) | os.FileMode(c) | util.Coerce(e,e,e) | math.Round/Min/Max(e..)
           | *p (under `p != nil` only) | xs[e] | m[e] | len(xs) | interface calls / field paths declared as inputs in the claim
  Types  ::= int (Z; or Z with explicit 64-bit wrap-around `wrap64`, per claim) | float64 (primitive float) | bool
           | *int (option Z) | []int (list Z) | map[int]int, map[int]float64 (key-sorted association list; nil-able: option)
           | time.Time / time.Duration only through the declared clock abstraction: time.Now() is a token,
             `now.Sub(r.lastTime).Seconds()` is `seconds dt_ns` of the explicit parameter (accepted only while r.lastTime is
             unwritten, and only if EVERY path stores now in r.lastTime), `r.lastTime.IsZero()` is `negb started`
  Panics ::= xs[i] out of range, integer division by zero, ui.Fatal, a modelled callee's panic outcome: a guard
             (`match .. with [] => Crash`, `if d =? 0 then Crash`) is emitted in Go evaluation order (outcome functions only;
             elsewhere such an operation is outside the subset)

For every claimed function the output has `Definition go_<id>` and `Definition Translated_<id> : bool := true`.
When the current source no longer fits the subset, the pinned definition (what this translator produces on the
pinned tree, tools/leaf2_pinned.json) is emitted with `Translated_<id> := false`, so the model still builds and
the correspondence run can look for a failing input, while Proofs/LeafTie2_<id>.v fails on `tie_<id>_translated`.
"""
import hashlib, json, os, subprocess, sys, time

TARGET = 'Leaf2.v'
HERE = os.path.dirname(os.path.abspath(__file__))
VERIF = os.path.dirname(HERE)
PINNED = os.path.join(HERE, 'leaf2_pinned.json')


class OutOfSubset(Exception):
    pass


def oos(msg, node=None):
    if node is not None and isinstance(node, dict) and node.get('Src'):
        msg += ' at `%s`' % node['Src'].split('\n')[0][:80]
        if node.get('Line'):
            msg += ' (line %d)' % node['Line']
    raise OutOfSubset(msg)


# ------------------------------------------------------------------------------------------------ the AST dumper
def _dumper():
    src = os.path.join(HERE, 'leaf2')
    h = hashlib.sha1()
    for f in ('main.go', 'go.mod'):
        h.update(open(os.path.join(src, f), 'rb').read())
    cache = os.path.join(VERIF, 'work', 'leaf2.cache')
    exe = os.path.join(cache, 'leaf2-' + h.hexdigest()[:12])
    if not os.path.exists(exe):
        os.makedirs(cache, exist_ok=True)
        env = dict(os.environ, GOFLAGS='-mod=mod', GOPROXY='off', GOSUMDB='off', GOTOOLCHAIN='local')
        tmp = exe + '.%d' % os.getpid()
        subprocess.run(['go', 'build', '-o', tmp, '.'], cwd=src, env=env, check=True, timeout=300,
                       stdout=subprocess.PIPE, stderr=subprocess.PIPE)
        os.replace(tmp, exe)
    return exe


def dump_asts(repo, specs):
    r = subprocess.run([_dumper(), repo] + specs, stdout=subprocess.PIPE, stderr=subprocess.PIPE, timeout=60)
    if r.returncode != 0:
        raise RuntimeError('gen_leaf2: leaf2 failed: %s' % r.stderr.decode()[-300:])
    return json.loads(r.stdout.decode())


# ------------------------------------------------------------------------------------------------ types
# Go types are strings: 'int' 'float64' 'bool' '*int' '[]int' 'time' 'map[int]int' 'map[int]float64' 'sortedkeys:<m>'
# 'untyped' (constants, carried as Python numbers), 'enum:<coqtype>', 'rec:<coqtype>', 'kv:<m>'
COQTY = {'int': 'Z', 'float64': 'float', 'bool': 'bool', '*int': 'option Z', '[]int': 'list Z',
         'map[int]int': 'list (Z * Z)', 'map[int]float64': 'list (Z * float)',
         '*map[int]float64': 'list (Z * float)', 'optmap[int]float64': 'option (list (Z * float))'}


def coqty(t):
    if t in COQTY:
        return COQTY[t]
    if t.startswith('rec:') or t.startswith('enum:'):
        return t.split(':', 1)[1]
    raise OutOfSubset('no Coq type for Go type %s' % t)


class V:
    """a translated expression: Gallina text + Go type; constants keep their exact value"""
    def __init__(self, term, ty, const=None, named=None):
        self.term, self.ty, self.const, self.named = term, ty, const, named


def flit(x):
    x = float(x)
    if x != x or x in (float('inf'), float('-inf')):
        raise OutOfSubset('non-finite constant')
    s = float.hex(abs(x))
    if s == '0x0.0p+0':
        s = '0x0p+0'
    return ('(-%s)%%float' % s) if (x < 0 or (x == 0 and str(x).startswith('-'))) else '%s%%float' % s


def zlit(n):
    return '(%d)' % n if n < 0 else '%d' % n


# ------------------------------------------------------------------------------------------------ translator
LOGGING = ('ui.Debug', 'ui.Info', 'ui.Warning', 'ui.Error', 'ui.Printfln')


class Tr:
    def __init__(self, claim, decl, claims_by_method):
        self.c = claim
        self.decl = decl
        self.methods = claims_by_method
        self.wrap = claim.get('intmode') == 'wrap'
        self.outcome = claim.get('outcome')          # (ValCtor, CrashCtor) or None
        self.recvname = None
        self.skipped = []
        self.fresh = 0
        self.npanic = 0          # panic guards emitted so far (a branch that can panic cannot be joined by a tuple)
        self.sub = lambda x: x

    # ---------------------------------------------------------------- environment
    # env: dict  go-name -> V (current Gallina name/term and type); keys 'r.f' for receiver fields / abstractions
    def lookup(self, env, key, node):
        if key in env:
            return env[key]
        oos('identifier %s outside the declared environment' % key, node)

    def tmp(self, base):
        self.fresh += 1
        return '%s_%d' % (base, self.fresh)

    # ---------------------------------------------------------------- constants and conversions
    def at(self, v, ty, node=None):
        """materialise v at Go type ty"""
        if v.ty == 'untyped':
            if v.named:
                if ty == 'int':
                    return V(v.named, 'int')
                if ty == 'float64':
                    return V('(%s %s)' % (self.i2f(), v.named), 'float64')
                oos('named constant used at %s' % ty, node)
            if ty == 'int':
                if v.const != int(v.const):
                    oos('fractional constant at int', node)
                return V(zlit(int(v.const)), 'int')
            if ty == 'float64':
                return V(flit(v.const), 'float64')
            oos('constant used at type %s' % ty, node)
        if v.ty != ty:
            oos('type mismatch: %s used at %s' % (v.ty, ty), node)
        return v

    def default_ty(self, v):
        if v.ty != 'untyped':
            return v
        if v.named or v.const == int(v.const) and not isinstance(v.const, float):
            return self.at(v, 'int')
        return self.at(v, 'float64')

    def i2f(self):
        return 'i2f64' if self.wrap else 'i2f'

    def iop(self, op, a, b):
        s = '(%s %s %s)' % (a, op, b)
        return '(wrap64 %s)' % s if self.wrap else s

    # ---------------------------------------------------------------- expressions
    def ex(self, e, env, G, want=None):
        """translate expression e; G collects panic guards [(kind, ...)] in evaluation order"""
        k = e['K']
        src = e.get('Src', '')
        ab = self.c.get('abstract', {})
        if src in ab:
            term, ty = ab[src]
            return V(term, ty)
        if src in env and k != 'Ident':
            return env[src]
        clk = self.c.get('clock')
        if clk and k == 'CallExpr':
            if src == clk['last'] + '.IsZero()' and clk.get('started'):
                if env.get('$clock_written_any'):
                    oos('IsZero after the clock field was written in the same call', e)
                return V('(negb %s)' % env[clk['started']].term, 'bool')
            f = e['Fun']
            if f['K'] == 'SelectorExpr' and f['Sel']['Name'] == 'Seconds' and not e['Args'] and f['X']['K'] == 'CallExpr':
                inner = f['X']
                g = inner['Fun']
                if g['K'] == 'SelectorExpr' and g['Sel']['Name'] == 'Sub' and len(inner['Args']) == 1 \
                        and inner['Args'][0].get('Src') == clk['last'] and clk.get('dt'):
                    nowv = env.get(g['X'].get('Src'))
                    if nowv is None or nowv.ty != 'time:now':
                        oos('Sub on something other than the current clock reading', e)
                    if env.get('$clock_written_any'):
                        oos('elapsed time read after the clock field was written in the same call', e)
                    return V('(seconds %s)' % clk['dt'], 'float64')
        if k == 'ParenExpr':
            return self.ex(e['X'], env, G, want)
        if k == 'BasicLit':
            if e['Kind'] == 'INT':
                return V(None, 'untyped', const=int(e['Value'].replace('_', ''), 0))
            if e['Kind'] == 'FLOAT':
                return V(None, 'untyped', const=float(e['Value'].replace('_', '')))
            oos('literal kind %s' % e['Kind'], e)
        if k == 'Ident':
            n = e['Name']
            if n in ('true', 'false') and n not in env:
                return V(n, 'bool')
            if n not in env and n in self.c.get('consts', {}):
                return V(None, 'untyped', named=self.c['consts'][n])
            return self.lookup(env, n, e)
        if k == 'SelectorExpr':
            consts = self.c.get('consts', {})
            if src in consts:
                return V(None, 'untyped', named=consts[src])
            return self.lookup(env, src, e)
        if k == 'StarExpr':
            key = '*' + e['X']['Src']
            if key in env:
                return env[key]
            oos('dereference outside a nil guard', e)
        if k == 'UnaryExpr':
            op = e['Op']
            x = self.ex(e['X'], env, G, want)
            if op == '&':
                if e['X']['K'] == 'Ident' and x.ty == 'int':
                    return V('(Some %s)' % x.term, '*int')       # a fresh pointer to the current value of an int variable
                oos('address-of', e)
            if op == '+':
                return x
            if op == '-':
                if x.ty == 'untyped' and not x.named:
                    return V(None, 'untyped', const=-x.const)
                x = self.default_ty(x)
                if x.ty == 'float64':
                    return V('(PrimFloat.opp %s)' % x.term, 'float64')
                if x.ty == 'int':
                    return V('(wrap64 (- %s))' % x.term if self.wrap else '(- %s)' % x.term, 'int')
            if op == '!' and x.ty == 'bool':
                return V('(negb %s)' % x.term, 'bool')
            oos('unary %s on %s' % (op, x.ty), e)
        if k == 'BinaryExpr':
            return self.binary(e, env, G)
        if k == 'CallExpr':
            return self.call(e, env, G, want)
        if k == 'IndexExpr':
            return self.index(e, env, G)
        oos('expression form %s' % k, e)

    def binary(self, e, env, G):
        op = e['Op']
        if op == '&&':
            X = e['X']
            while X['K'] == 'ParenExpr':
                X = X['X']
            if X['K'] == 'BinaryExpr' and X['Op'] == '!=' and X['Y'].get('Src') == 'nil' and X['X'].get('Src') in env \
                    and env[X['X']['Src']].ty == '*int':
                key = X['X']['Src']
                pay = self.cname(key) + 'v'
                env2 = dict(env)
                env2['*' + key] = V(pay, 'int')
                G2 = []
                b = self.ex(e['Y'], env2, G2)
                if G2 or b.ty != 'bool':
                    oos('operand of && after a nil test', e)
                return V('(match %s with Some %s => %s | None => false end)' % (env[key].term, pay, b.term), 'bool')
        if op in ('&&', '||'):
            a = self.ex(e['X'], env, G)
            G2 = []
            b = self.ex(e['Y'], env, G2)
            if G2:
                oos('panicking operand under a short-circuit operator', e)
            if a.ty != 'bool' or b.ty != 'bool':
                oos('non-boolean operand of %s' % op, e)
            return V('(%s %s %s)' % (a.term, op, b.term), 'bool')
        # nil comparisons are handled by cond(); reaching here means an unsupported position
        if e['Y'].get('Src') == 'nil' and op in ('==', '!='):
            x = self.ex(e['X'], env, G)
            if x.ty == '*int' or x.ty.startswith('opt'):
                return V('(is_some %s)' % x.term if op == '!=' else '(negb (is_some %s))' % x.term, 'bool')
            oos('nil comparison of %s' % x.ty, e)
        if e['Y'].get('Src') == 'nil' or e['X'].get('Src') == 'nil':
            oos('nil comparison in expression position', e)
        a = self.ex(e['X'], env, G)
        b = self.ex(e['Y'], env, G)
        if a.ty == 'untyped' and b.ty == 'untyped':
            if a.named or b.named:
                a, b = self.default_ty(a), self.default_ty(b)
            else:
                if op in ('+', '-', '*'):
                    return V(None, 'untyped', const={'+': a.const + b.const, '-': a.const - b.const, '*': a.const * b.const}[op])
                oos('constant expression %s' % op, e)
        ty = b.ty if a.ty == 'untyped' else a.ty
        a, b = self.at(a, ty, e), self.at(b, ty, e)
        if op in ('+', '-', '*', '/'):
            if ty == 'float64':
                f = {'+': 'PrimFloat.add', '-': 'PrimFloat.sub', '*': 'PrimFloat.mul', '/': 'PrimFloat.div'}[op]
                return V('(%s %s %s)' % (f, a.term, b.term), ty)
            if ty == 'int':
                if op == '/':
                    if not self.outcome:
                        oos('integer division (panics on zero) in a function without a panic outcome', e)
                    G.append(('divzero', b.term))
                    return V('(Z.quot %s %s)' % (a.term, b.term), ty)
                return V(self.iop(op, a.term, b.term), ty)
            oos('arithmetic on %s' % ty, e)
        if op == '&' and ty == 'int':
            return V('(Z.land %s %s)' % (a.term, b.term), ty)
        if op in ('<', '<=', '>', '>=', '==', '!='):
            x, y = a.term, b.term
            if ty == 'float64':
                t = {'<': '(PrimFloat.ltb %s %s)' % (x, y), '>': '(PrimFloat.ltb %s %s)' % (y, x),
                     '<=': '(PrimFloat.leb %s %s)' % (x, y), '>=': '(PrimFloat.leb %s %s)' % (y, x),
                     '==': '(PrimFloat.eqb %s %s)' % (x, y), '!=': '(negb (PrimFloat.eqb %s %s))' % (x, y)}[op]
                return V(t, 'bool')
            if ty == 'int':
                t = {'<': '(%s <? %s)' % (x, y), '>': '(%s <? %s)' % (y, x),
                     '<=': '(%s <=? %s)' % (x, y), '>=': '(%s <=? %s)' % (y, x),
                     '==': '(%s =? %s)' % (x, y), '!=': '(negb (%s =? %s))' % (x, y)}[op]
                return V(t, 'bool')
            oos('comparison on %s' % ty, e)
        oos('binary operator %s' % op, e)

    def call(self, e, env, G, want):
        fn = e['Fun'].get('Src', '')
        args = e['Args']
        if fn in ('float64', 'int') and len(args) == 1:
            x = self.ex(args[0], env, G)
            if x.ty == 'untyped':
                return self.at(x, fn, e)
            if fn == 'float64':
                if x.ty == 'float64':
                    return x
                if x.ty == 'int':
                    return V('(%s %s)' % (self.i2f(), x.term), 'float64')
            if fn == 'int':
                if x.ty == 'int':
                    return x
                if x.ty == 'float64':
                    return V('(f2i %s)' % x.term, 'int')
            oos('conversion %s of %s' % (fn, x.ty), e)
        if fn == 'os.FileMode' and len(args) == 1:
            return self.ex(args[0], env, G, want)            # a uint32 bit set: kept as Z
        pure = {'util.Coerce': ('Util.Coerce', 3), 'math.Round': ('goRound', 1), 'math.Min': ('goMin', 2), 'math.Max': ('goMax', 2)}
        if fn in pure:
            name, n = pure[fn]
            if len(args) != n:
                oos('arity of %s' % fn, e)
            ts = [self.at(self.ex(a, env, G), 'float64', a).term for a in args]
            return V('(%s %s)' % (name, ' '.join(ts)), 'float64')
        if fn == 'len' and len(args) == 1:
            x = self.ex(args[0], env, G)
            if x.ty == '[]int':
                return V('(Z.of_nat (length %s))' % x.term, 'int')
            oos('len of %s' % x.ty, e)
        oc = self.c.get('outcome_calls', {})
        if fn in oc:
            spec = oc[fn]
            if not self.outcome:
                oos('panicking callee in a function without a panic outcome', e)
            if len(args) != len(spec['args']):
                oos('arity of %s' % fn, e)
            ts = [self.at(self.ex(a, env, G), aty, a).term for a, aty in zip(args, spec['args']) if aty is not None]
            for i, s in spec.get('fixed', {}).items():
                if args[i].get('Src') != s:
                    oos('argument %d of %s is not %s' % (i, fn, s), e)
            t = self.tmp('r')
            G.append(('outcome', '(%s %s)' % (spec['coq'], ' '.join(ts)), spec['ok'], spec['panic'], t))
            return V(t, spec['ret'])
        oos('call of %s' % fn, e)

    def index(self, e, env, G):
        x = e['X']
        xs = x.get('Src', '')
        isrc = e['Index'].get('Src', '')
        # (*m)[k] / m[k] inside `for _, k := range <sorted keys of m>`: the value paired with k
        key = 'kv:%s[%s]' % (xs.strip('()').lstrip('*'), isrc)
        if key in env:
            return env[key]
        xv = self.ex(x, env, G)
        iv = self.at(self.ex(e['Index'], env, G), 'int', e)
        if xv.ty == 'map[int]int':
            return V('(Util.lookup %s %s)' % (xv.term, iv.term), 'int')       # Go map read: zero value when missing
        if xv.ty == '[]int':
            if not self.outcome:
                oos('slice index (panics when out of range) in a function without a panic outcome', e)
            t = self.tmp('x')
            G.append(('index', xv.term, iv.term, t))
            return V(t, 'int')
        oos('index of %s' % xv.ty, e)

    # ---------------------------------------------------------------- guards
    def guarded(self, G, body):
        """wrap `body` (a Gallina term of the outcome type) in the panic guards G, first guard outermost"""
        crash = self.outcome[1] if self.outcome else None
        if G:
            self.npanic += 1
        for g in reversed(G):
            if g[0] == 'divzero':
                body = 'if (%s =? 0) then %s else %s' % (g[1], crash, body)
            elif g[0] == 'index':
                if g[2] == '0':
                    body = 'match %s with [] => %s | %s :: _ => %s end' % (g[1], crash, g[3], body)
                else:
                    body = 'match Util.get %s %s with None => %s | Some %s => %s end' % (g[1], g[2], crash, g[3], body)
            elif g[0] == 'outcome':
                body = 'match %s with %s => %s | %s %s => %s end' % (g[1], g[3], crash, g[2], g[4], body)
        return body

    # ---------------------------------------------------------------- statements
    def assigned(self, stmts, env):
        """outer variables (keys of env) assigned anywhere in stmts, in order of first assignment"""
        out = []

        def add(k):
            if k in env and k not in out:
                out.append(k)

        def walk(ss, local):
            for s in ss:
                k = s['K']
                if k == 'AssignStmt':
                    for l in s['Lhs']:
                        n = l.get('Src')
                        if s['Tok'] == ':=':
                            if n in env and n not in local and self._redeclares(s, n, env, local):
                                add(n)
                            else:
                                local = local | {n}
                        elif n not in local:
                            clk = self.c.get('clock')
                            if clk and n == clk['last']:
                                if clk.get('started'):
                                    add(clk['started'])
                            else:
                                add(self.lhs_key(l, env))
                elif k == 'IncDecStmt':
                    n = s['X'].get('Src')
                    if n not in local:
                        add(self.lhs_key(s['X'], env))
                elif k == 'DeclStmt':
                    for sp in s['Decl']['Specs']:
                        for nm in sp['Names']:
                            local = local | {nm['Name']}
                elif k == 'IfStmt':
                    walk(s['Body']['List'], local)
                    if s.get('Else'):
                        walk([s['Else']] if s['Else']['K'] == 'IfStmt' else s['Else']['List'], local)
                elif k == 'BlockStmt':
                    walk(s['List'], local)
                elif k == 'RangeStmt':
                    loc2 = set(local)
                    for kk in ('Key', 'Value'):
                        if s.get(kk) and s[kk].get('Name'):
                            loc2.add(s[kk]['Name'])
                    walk(s['Body']['List'], loc2)
                elif k == 'SwitchStmt':
                    for cc in s['Body']['List']:
                        walk(cc['Body'], local)
                elif k == 'ExprStmt':
                    call = s['X']
                    fn = call.get('Fun', {}).get('Src', '')
                    ms = self.c.get('method_stmts', {}).get(fn)
                    if ms:
                        for key in ms['state']:
                            add(self.sub(key))
                    ef = self.c.get('effects', {}).get(fn)
                    if ef:
                        add(ef['key'])
        walk(stmts, frozenset())
        return out

    def _redeclares(self, s, n, env, local):
        return False     # `x := ...` inside a nested block always declares a new (shadowing) variable

    def lhs_key(self, l, env):
        return l.get('Src')

    def method_of(self, fn):
        return self.methods.get((self.recvname, fn)) if self.recvname else None

    def may_return(self, stmts):
        for s in stmts:
            k = s['K']
            if k == 'ReturnStmt':
                return True
            if k == 'IfStmt':
                if self.may_return(s['Body']['List']):
                    return True
                if s.get('Else') and self.may_return([s['Else']] if s['Else']['K'] == 'IfStmt' else s['Else']['List']):
                    return True
            if k == 'BlockStmt' and self.may_return(s['List']):
                return True
            if k in ('RangeStmt', 'ForStmt') and self.may_return(s['Body']['List']):
                return True
            if k == 'SwitchStmt' and any(self.may_return(cc['Body']) for cc in s['Body']['List']):
                return True
            if k == 'ExprStmt' and s['X'].get('Fun', {}).get('Src') == 'ui.Fatal':
                return True
        return False

    def tuple_of(self, keys, env):
        ts = [env[k].term for k in keys]
        return ts[0] if len(ts) == 1 else '(%s)' % ', '.join(ts)

    def pat_of(self, names):
        return names[0] if len(names) == 1 else "'(%s)" % ', '.join(names)

    def cname(self, key):
        """Gallina name for the Go variable / field path `key`"""
        return key.replace('.', '_').replace('*', 'p_').replace('#', 'h_') + '_'

    def bind(self, env, key, ty):
        env = dict(env)
        env[key] = V(self.cname(key), ty)
        return env

    def block(self, stmts, env, k):
        """translate the statement list; k(env) produces the Gallina term for 'fell off the end'"""
        if not stmts:
            return k(env)
        s, rest = stmts[0], stmts[1:]
        K = s['K']
        cont = lambda env2: self.block(rest, env2, k)

        if K == 'BlockStmt':
            return self.block(s['List'] + rest, env, k) if not self._declares(s['List']) else oos('nested block with declarations', s)

        if K == 'ReturnStmt':
            return self.ret(s, env)

        if K == 'DeclStmt':
            d = s['Decl']
            if d['Tok'] != 'var':
                oos('declaration', s)
            env2, lets, G = env, [], []
            for sp in d['Specs']:
                ty = sp['Type']['Src'] if sp.get('Type') else None
                if ty is not None and ty not in ('int', 'float64', 'bool'):
                    idi = self.c.get('sorted_keys')
                    if idi and ty == '[]int' and [nm['Name'] for nm in sp['Names']] == [idi['keys']] and not sp.get('Values'):
                        continue
                    oos('var of type %s' % ty, s)
                vals = sp.get('Values') or []
                if vals and len(vals) != len(sp['Names']):
                    oos('var arity', s)
                for i, nm in enumerate(sp['Names']):
                    if vals:
                        v = self.ex(vals[i], env, G, ty)
                        v = self.at(v, ty, s) if ty else self.default_ty(v)
                    else:
                        v = V({'int': '0', 'float64': flit(0.0), 'bool': 'false'}[ty], ty)
                    lets.append((self.cname(nm['Name']), v.term))
                    env2 = dict(env2)
                    env2[nm['Name']] = V(self.cname(nm['Name']), v.ty)
            body = cont(env2)
            for n, t in reversed(lets):
                body = 'let %s := %s in\n  %s' % (n, t, body)
            return self.guarded(G, body)

        if K == 'IncDecStmt':
            one = {'K': 'BasicLit', 'Kind': 'INT', 'Value': '1', 'Src': '1'}
            s2 = {'K': 'AssignStmt', 'Tok': '+=' if s['Tok'] == '++' else '-=', 'Lhs': [s['X']], 'Rhs': [one], 'Src': s['Src'], 'Line': s.get('Line')}
            return self.block([s2] + rest, env, k)

        if K == 'AssignStmt':
            return self.assign(s, rest, env, k)

        if K == 'ExprStmt':
            call = s['X']
            fn = call.get('Fun', {}).get('Src', '') if call['K'] == 'CallExpr' else ''
            if fn in LOGGING:
                self.skipped.append('line %s: %s(...) (logging)' % (s.get('Line'), fn))
                return cont(env)
            if fn == 'ui.Fatal':
                if not self.outcome:
                    oos('ui.Fatal in a function without a panic outcome', s)
                self.npanic += 1
                return self.outcome[1]
            ms = self.c.get('method_stmts', {}).get(fn)
            if ms and not call['Args']:
                keys = [self.sub(x) for x in ms['state']]
                env2 = dict(env)
                for key in keys:
                    env2[key] = V(self.cname(key), env[key].ty)
                return "let %s := %s %s in\n  %s" % (self.pat_of([self.cname(x) for x in keys]), ms['coq'],
                                                      ' '.join(env[x].term for x in keys), cont(env2))
            ef = self.c.get('effects', {}).get(fn)
            if ef and len(call['Args']) == 1:
                G = []
                v = self.at(self.ex(call['Args'][0], env, G), ef['argty'], s)
                env2 = dict(env)
                env2[ef['key']] = V(self.cname(ef['key']), env[ef['key']].ty)
                return self.guarded(G, 'let %s := (Some %s) in\n  %s' % (self.cname(ef['key']), v.term, cont(env2)))
            if s['Src'] in self.c.get('skip_stmts', {}):
                self.skipped.append('line %s: %s (%s)' % (s.get('Line'), s['Src'], self.c['skip_stmts'][s['Src']]))
                return cont(env)
            oos('expression statement', s)

        if K == 'IfStmt':
            return self.ifstmt(s, rest, env, k)

        if K == 'RangeStmt':
            return self.rangestmt(s, rest, env, k)

        if K == 'SwitchStmt':
            return self.switchstmt(s, rest, env, k)

        oos('statement form %s' % K, s)

    def _declares(self, stmts):
        return any(s['K'] == 'DeclStmt' or (s['K'] == 'AssignStmt' and s['Tok'] == ':=') for s in stmts)

    # -- return
    def ret(self, s, env):
        spec = self.c['result']
        G = []
        vals = s.get('Results') or []
        if spec['kind'] == 'values':
            tys = spec['types']
            if len(vals) != len(tys):
                oos('return arity', s)
            ts = [self.at(self.ex(v, env, G), t, s).term for v, t in zip(vals, tys)]
            return self.guarded(G, self.finish(ts, env))
        if spec['kind'] == 'valerr':             # (int, error) -> error code (0 = nil), value
            if len(vals) != 2:
                oos('return arity', s)
            er = vals[1].get('Src')
            if er != 'nil' and er not in spec['errors']:
                oos('unknown error value %s' % er, s)
            v = self.at(self.ex(vals[0], env, G), 'int', s)
            return self.guarded(G, self.finish([zlit(0 if er == 'nil' else spec['errors'][er]), v.term], env))
        if spec['kind'] == 'okerr':              # (bool, error) -> option <err enum>
            if len(vals) != 2:
                oos('return arity', s)
            b, er = vals[0].get('Src'), vals[1]
            if b == 'true' and er.get('Src') == 'nil':
                return 'None'
            if b == 'false' and er['K'] == 'CallExpr' and er['Fun'].get('Src') == 'errors.New' and len(er['Args']) == 1:
                msg = er['Args'][0].get('Value', '')
                if msg in spec['errors']:
                    return '(Some %s)' % spec['errors'][msg]
                oos('unknown error text %s' % msg, s)
            oos('return shape (want `true, nil` or `false, errors.New("...")`)', s)
        oos('result kind', s)

    def finish(self, ts, env):
        """result term: written receiver state first (as declared), then the returned values"""
        spec = self.c['result']
        clk = self.c.get('clock')
        if clk and clk.get('dt') and not env.get('$clock_written_all'):
            # `seconds dt_ns` stands for now.Sub(lastTime) only if every call leaves lastTime = now
            oos('a path through the function does not store the current clock reading in %s' % clk['last'])
        parts = []
        if spec.get('state'):
            ctor, keys = spec['state']
            ts0 = [env[self.sub(kk)].term for kk in keys]
            parts.append('(%s %s)' % (ctor, ' '.join(ts0)) if ctor else (ts0[0] if len(ts0) == 1 else '(%s)' % ', '.join(ts0)))
        parts += ts
        t = parts[0] if len(parts) == 1 else '(%s)' % ', '.join(parts)
        if self.outcome and spec.get('wrap', True):
            t = '(%s %s)' % (self.outcome[0], t) if len(parts) == 1 else oos('outcome of a tuple')
        return t

    # -- assignment
    def assign(self, s, rest, env, k):
        tok = s['Tok']
        lhs, rhs = s['Lhs'], s['Rhs']
        cont = lambda env2: self.block(rest, env2, k)
        # method call with results:  res := r.g.M(args)
        if len(rhs) == 1 and rhs[0]['K'] == 'CallExpr':
            fn = rhs[0]['Fun'].get('Src', '')
            mc = self.c.get('method_calls', {}).get(fn)
            if mc:
                if len(lhs) != 1 or tok != ':=':
                    oos('method call result binding', s)
                G = []
                args = [self.at(self.ex(a, env, G), t, s).term for a, t in zip(rhs[0]['Args'], mc['args'])]
                if len(args) != len(mc['args']) or len(rhs[0]['Args']) != len(mc['args']):
                    oos('arity of %s' % fn, s)
                st = self.lookup(env, mc['state'], s)
                n = lhs[0]['Name']
                env2 = dict(env)
                env2[mc['state']] = V(self.cname(mc['state']), st.ty)
                env2[n] = V(self.cname(n), mc['ret'])
                body = cont(env2)
                t = "let '(%s, %s) := %s %s %s in\n  %s" % (self.cname(mc['state']), self.cname(n), mc['coq'], st.term,
                                                          ' '.join(args + mc.get('extra', [])), body)
                return self.guarded(G, t)
        if len(lhs) != len(rhs):
            oos('assignment arity', s)
        if len(lhs) > 1:
            oos('parallel assignment', s)
        l, r = lhs[0], rhs[0]
        key = l.get('Src')
        G = []
        # the clock abstraction
        clk = self.c.get('clock')
        if clk:
            if r.get('Src') == 'time.Now()' and tok == ':=':
                env2 = dict(env)
                env2[key] = V(None, 'time:now')
                return cont(env2)
            if key == clk.get('last') and tok == '=':
                rv = env.get(r.get('Src'))
                if rv is None or rv.ty != 'time:now':
                    oos('assignment to %s of something other than the current clock reading' % key, s)
                if clk.get('started') is None:
                    self.skipped.append('line %s: %s (write-only clock field, never read in this function)' % (s.get('Line'), s['Src']))
                    return cont(env)
                env2 = dict(env)
                env2[clk['started']] = V('true', 'bool')
                env2['$clock_written_any'] = True
                env2['$clock_written_all'] = True
                return cont(env2)
        if tok == ':=' or (tok == '=' and key in self.c.get('declare_on_assign', ())):
            if l['K'] != 'Ident':
                oos('define of a non-identifier', s)
            v = self.default_ty(self.ex(r, env, G))
            if v.term is None:
                oos('value of abstract type bound to a variable', s)
            env2 = dict(env)
            env2[key] = V(self.cname(key), v.ty)
            return self.guarded(G, 'let %s := %s in\n  %s' % (self.cname(key), v.term, cont(env2)))
        if tok in ('=', '+=', '-=', '*=', '/='):
            cur = self.lookup(env, key, s)
            if cur.ty == '*int' and tok == '=' and l['K'] == 'SelectorExpr':
                pass                                          # r.f = &x
            elif cur.ty not in ('int', 'float64', 'bool'):
                oos('assignment to a variable of type %s' % cur.ty, s)
            if tok == '=':
                v = self.at(self.ex(r, env, G), cur.ty, s)
            else:
                fake = {'K': 'BinaryExpr', 'Op': tok[0], 'X': l, 'Y': r, 'Src': s['Src']}
                v = self.at(self.binary(fake, env, G), cur.ty, s)
            env2 = dict(env)
            env2[key] = V(self.cname(key), cur.ty)
            return self.guarded(G, 'let %s := %s in\n  %s' % (self.cname(key), v.term, cont(env2)))
        oos('assignment operator %s' % tok, s)

    # -- conditions
    def nil_test(self, c, env):
        """(key, is_nonnil_test) when c is `p != nil` / `p == nil` on an option-typed thing"""
        if c['K'] == 'BinaryExpr' and c['Op'] in ('!=', '==') and c['Y'].get('Src') == 'nil':
            key = c['X'].get('Src')
            if key in env and (env[key].ty == '*int' or env[key].ty.startswith('opt')):
                return key, c['Op'] == '!='
            oos('nil test on %s' % key, c)
        return None

    def ifstmt(self, s, rest, env, k):
        if s.get('Init'):
            oos('if with an init statement', s)
        then = s['Body']['List']
        els = [] if not s.get('Else') else ([s['Else']] if s['Else']['K'] == 'IfStmt' else s['Else']['List'])
        nt = self.nil_test(s['Cond'], env)
        G = []

        def branches(mk_then, mk_else):
            if nt:
                key, nonnil = nt
                v = env[key]
                pay = self.cname(key) + 'v'
                envS = dict(env)
                if v.ty == '*int':
                    envS['*' + key] = V(pay, 'int')
                else:
                    envS[key + '!'] = V(pay, v.ty[3:])          # the non-nil payload, e.g. steps! : map
                    envS = self.payload_alias(envS, key, pay, v.ty[3:])
                a = mk_then(envS if nonnil else env)
                b = mk_else(env if nonnil else envS)
                some, none = (a, b) if nonnil else (b, a)
                return 'match %s with\n  | Some %s => %s\n  | None => %s\n  end' % (v.term, pay, some, none)
            c = self.ex(s['Cond'], env, G)
            if c.ty != 'bool':
                oos('condition of type %s' % c.ty, s)
            return 'if %s then %s else %s' % (c.term, mk_then(env), mk_else(env))

        if self.may_return(then) or self.may_return(els):
            # a branch can leave the function: the continuation is duplicated into both branches
            t = branches(lambda e1: self.block_scoped(then, rest, e1, env, k),
                         lambda e2: self.block_scoped(els, rest, e2, env, k))
            return self.guarded(G, t)
        mod = self.assigned(then + els, env)
        if not mod:
            # nothing but logging inside (checked by translating both branches to the empty tuple)
            self.block(then, env, lambda e: 'tt')
            self.block(els, env, lambda e: 'tt')
            return self.block(rest, env, k)
        flags = []

        def fin(e):
            flags.append((bool(e.get('$clock_written_any')), bool(e.get('$clock_written_all'))))
            return self.tuple_of(mod, e)
        if self._declares_outer(then, env) or self._declares_outer(els, env):
            oos('declaration shadowing an outer variable inside a joined branch', s)
        n0 = self.npanic
        t = branches(lambda e1: self.block(then, e1, fin), lambda e2: self.block(els, e2, fin))
        if self.npanic != n0:       # a branch can panic: no tuple join, duplicate the continuation instead
            G = []
            t = branches(lambda e1: self.block_scoped(then, rest, e1, env, k),
                         lambda e2: self.block_scoped(els, rest, e2, env, k))
            return self.guarded(G, t)
        env2 = dict(env)
        names = []
        for key in mod:
            env2[key] = V(self.cname(key), env[key].ty)
            names.append(self.cname(key))
        env2['$clock_written_any'] = any(a for a, _ in flags)
        env2['$clock_written_all'] = bool(flags) and all(b for _, b in flags)
        body = self.block(rest, env2, k)
        return self.guarded(G, 'let %s :=\n  %s in\n  %s' % (self.pat_of(names), t, body))

    def payload_alias(self, envS, key, pay, ty):
        envS[key] = V(pay, ty)
        return envS

    def block_scoped(self, inner, rest, env_in, env_out, k):
        """inner statements in their own scope, then the continuation in the outer scope (with outer variables updated)"""
        def after(e_inner):
            e = dict(env_out)
            for key in env_out:
                if key in e_inner:
                    e[key] = e_inner[key]
            return self.block(rest, e, k)
        if any(self._shadows(inner, key) for key in env_out):
            oos('shadowing declaration in a branch that may return')
        return self.block(inner, env_in, after)

    def _shadows(self, stmts, key):
        for s in stmts:
            if s['K'] == 'AssignStmt' and s['Tok'] == ':=' and any(l.get('Src') == key for l in s['Lhs']):
                return True
            if s['K'] == 'DeclStmt' and any(nm['Name'] == key for sp in s['Decl']['Specs'] for nm in sp['Names']):
                return True
        return False

    def scoped(self, e1, env):
        return e1

    # -- range loops
    def rangestmt(self, s, rest, env, k):
        if s['Tok'] != ':=':
            oos('range with assignment', s)
        body = s['Body']['List']
        if self.may_return(body) or self._has_branch(body):
            oos('return/break/continue inside a range loop', s)
        xsrc = s['X'].get('Src')
        keyn = s['Key']['Name'] if s.get('Key') else '_'
        valn = s['Value']['Name'] if s.get('Value') else None
        # idiom: collect the keys of a map, to be sorted
        idi = self.c.get('sorted_keys')
        if idi and xsrc in (idi['map'], '*' + idi['map']) and valn is None:
            if len(body) == 1 and body[0]['Src'] == '%s = append(%s, %s)' % (idi['keys'], idi['keys'], keyn) \
                    and rest and rest[0]['Src'] == 'sort.Ints(%s)' % idi['keys']:
                env2 = dict(env)
                env2[idi['keys']] = V(env[idi['map']].term, 'sortedkeys:' + idi['map'])
                self.skipped.append('line %s: keys of %s collected and sorted: iteration over the key-sorted association list' % (s.get('Line'), idi['map']))
                return self.block(rest[1:], env2, k)
            oos('map iteration outside the collect-and-sort idiom', s)
        xs = self.lookup(env, xsrc, s)
        envB = dict(env)
        if xs.ty == '[]int':
            elem = self.cname(valn) if valn else '_'
            if valn:
                envB[valn] = V(elem, 'int')
        elif xs.ty.startswith('sortedkeys:'):
            m = xs.ty.split(':', 1)[1]
            if keyn != '_' or not valn:
                oos('range form over sorted keys', s)
            mty = env[m].ty
            vty = {'*map[int]float64': 'float64', 'map[int]float64': 'float64', 'map[int]int': 'int'}[mty]
            envB[valn] = V(self.cname(valn), 'int')
            envB['kv:%s[%s]' % (m, valn)] = V(self.cname(valn) + 'val', vty)
            elem = "'(%s, %s)" % (self.cname(valn), self.cname(valn) + 'val')
        else:
            oos('range over %s' % xs.ty, s)
        mod = self.assigned(body, env)
        if self._declares_outer(body, env):
            oos('declaration shadowing an outer variable inside a loop body', s)
        idx = keyn != '_'
        if idx:
            if keyn in env:
                oos('loop index shadows a variable', s)
            envB[keyn] = V(self.cname(keyn), 'int')
        if not mod:
            self.block(body, envB, lambda e: 'tt')
            return self.block(rest, env, k)
        accn = ([self.cname(keyn)] if idx else []) + [self.cname(key) for key in mod]
        for key in mod:
            envB[key] = V(self.cname(key), env[key].ty)

        def fin(e):
            ts = (['(%s + 1)' % e[keyn].term] if idx else []) + [e[key].term for key in mod]
            return ts[0] if len(ts) == 1 else '(%s)' % ', '.join(ts)
        n0 = self.npanic
        step = self.block(body, envB, fin)
        if self.npanic != n0:
            oos('panicking operation inside a range loop', s)
        init = (['0'] if idx else []) + [env[key].term for key in mod]
        init = init[0] if len(init) == 1 else '(%s)' % ', '.join(init)
        fold = '(fold_left (fun %s %s => %s) %s %s)' % (self.pat_of(accn), elem, step, xs.term, init)
        env2 = dict(env)
        names = []
        for key in mod:
            env2[key] = V(self.cname(key), env[key].ty)
            names.append(self.cname(key))
        pat = self.pat_of((['_'] if idx else []) + names)
        return 'let %s := %s in\n  %s' % (pat, fold, self.block(rest, env2, k))

    def _has_branch(self, stmts):
        for s in stmts:
            if s['K'] == 'BranchStmt':
                return True
            for sub in ('Body', 'Else'):
                b = s.get(sub)
                if isinstance(b, dict):
                    if self._has_branch(b.get('List', [b]) if b['K'] != 'IfStmt' else [b]):
                        return True
        return False

    # -- switch on an enumerated constant
    def switchstmt(self, s, rest, env, k):
        if s.get('Init') or not s.get('Tag'):
            oos('switch form', s)
        en = self.c.get('enum')
        if not en or s['Tag'].get('Src') != en['tag']:
            oos('switch tag is not the declared enumeration', s)
        clauses = s['Body']['List']
        bodies = [b for cc in clauses for b in cc['Body']]
        if self._has_branch_sw(bodies):
            oos('break/fallthrough inside a switch', s)
        ret = any(self.may_return(cc['Body']) for cc in clauses)
        mod = self.assigned(bodies, env)
        if not ret:
            n0 = self.npanic
            for cc in clauses:
                self.block(cc['Body'], env, lambda e: 'tt')
            ret = self.npanic != n0
        if ret:
            mk = lambda body: self.block_scoped(body, rest, env, env, k)
        else:
            mk = lambda body: self.block(body, env, lambda e: self.tuple_of(mod, e))
        arms, seen, default = [], [], None
        for cc in clauses:
            if self._declares_outer(cc['Body'], env):
                oos('shadowing declaration in a case', s)
            if not cc.get('List'):
                default = cc
                continue
            ctors = []
            for c in cc['List']:
                name = en['cases'].get(c.get('Src'))
                if name is None:
                    oos('case constant %s is not in the declared enumeration' % c.get('Src'), s)
                if name in seen:
                    oos('duplicate case', s)
                seen.append(name)
                ctors.append(name)
            arms.append('  | %s => %s' % (' | '.join(ctors), mk(cc['Body'])))
        missing = [c for c in en['cases'].values() if c not in seen]
        if missing:
            arms.append('  | _ => %s' % (mk(default['Body']) if default else mk([])))
        elif default is not None:
            mk(default['Body'])        # must still be in the subset
            self.skipped.append('line %s: default case unreachable: every constructor of %s has a case' % (default['Body'][0].get('Line') if default['Body'] else '?', en['type']))
        t = 'match %s with\n%s\n  end' % (en['term'], '\n'.join(arms))
        if ret:
            return t
        if not mod:
            return self.block(rest, env, k)
        env2 = dict(env)
        names = []
        for key in mod:
            env2[key] = V(self.cname(key), env[key].ty)
            names.append(self.cname(key))
        return self.bind_outcome(names, t, self.block(rest, env2, k), ret_in_arms=self._arms_crash(clauses))

    def _arms_crash(self, clauses):
        return False

    def bind_outcome(self, names, t, body, ret_in_arms):
        return 'let %s :=\n  %s in\n  %s' % (self.pat_of(names), t, body)

    def _has_branch_sw(self, stmts):
        return any(s['K'] == 'BranchStmt' for s in stmts) or self._has_branch(stmts)

    def _declares_outer(self, stmts, env):
        return any(self._shadows(stmts, key) for key in env)


# ------------------------------------------------------------------------------------------------ claims
def find_fragment(body, frag):
    """the statements of a fragment: located structurally, never by the text that is being translated"""
    stmts = body['List']
    kind = frag['kind']
    if kind == 'whole':
        return stmts
    if kind == 'after':            # `count` statements following the (unique) statement whose text is `anchor`
        idx = [i for i, s in enumerate(stmts) if s['Src'].split('\n')[0] == frag['anchor']]
        if len(idx) != 1:
            raise OutOfSubset('fragment anchor `%s` found %d times' % (frag['anchor'], len(idx)))
        i = idx[0] + 1
        n = frag.get('count')
        out = stmts[i:] if n is None else stmts[i:i + n]
        if n is not None and len(out) != n:
            raise OutOfSubset('fragment after `%s` is short' % frag['anchor'])
        for s, kk in zip(out, frag.get('kinds', [])):
            if s['K'] != kk:
                raise OutOfSubset('fragment statement after `%s` is a %s, expected %s' % (frag['anchor'], s['K'], kk))
        return out
    if kind == 'only':             # the unique top-level statement of syntactic kind K
        out = [s for s in stmts if s['K'] == frag['K']]
        if len(out) != 1:
            raise OutOfSubset('expected exactly one top-level %s, found %d' % (frag['K'], len(out)))
        return out
    if kind == 'else_of':          # the else-block of the unique top-level if whose condition text is `cond`
        out = [s for s in stmts if s['K'] == 'IfStmt' and s['Cond'].get('Src') == frag['cond']]
        if len(out) != 1 or not out[0].get('Else') or out[0]['Else']['K'] != 'BlockStmt':
            raise OutOfSubset('if `%s` with an else block not found' % frag['cond'])
        return out[0]['Else']['List']
    raise OutOfSubset('fragment kind')


def params_of(decl):
    out = []
    for f in decl['Type']['Params']['List'] or []:
        for n in f['Names']:
            out.append((n['Name'], f['Type']['Src']))
    return out


def results_of(decl):
    out = []
    r = decl['Type'].get('Results')
    for f in (r['List'] if r else []):
        names = f.get('Names') or [None]
        for n in names:
            out.append((n['Name'] if n else None, f['Type']['Src']))
    return out


def recv_of(decl):
    r = decl.get('Recv')
    if not r or not r['List']:
        return None
    f = r['List'][0]
    return f['Names'][0]['Name'] if f.get('Names') else '_'


def translate(claim, decl, methods):
    tr = Tr(claim, decl, methods)
    rn = recv_of(decl)
    tr.recvname = rn
    env, binders = {}, []
    # receiver fields / abstractions declared by the claim, with the receiver's actual name substituted for `$`
    sub = lambda s: s.replace('$', rn or '$')
    tr.sub = sub
    claim = dict(claim)
    for kk in ('abstract', 'skip_stmts', 'method_calls', 'outcome_calls', 'method_stmts', 'effects'):
        if kk in claim:
            claim[kk] = {sub(a): b for a, b in claim[kk].items()}
    for kk in ('clock', 'enum', 'sorted_keys'):
        if kk in claim:
            claim[kk] = {a: (sub(b) if isinstance(b, str) and a in ('last', 'started', 'tag') else b) for a, b in claim[kk].items()}
    if 'method_calls' in claim:
        claim['method_calls'] = {a: dict(b, state=sub(b['state'])) for a, b in claim['method_calls'].items()}
    tr.c = claim
    for b in claim.get('binders', []):                 # (go key, Gallina term, go type, Gallina binder or None)
        key, term, ty, binder = b
        env[sub(key)] = V(term, ty)
        if binder and binder not in binders:
            binders.append(binder)
    if claim['frag']['kind'] == 'whole':
        want = claim.get('params')
        got = params_of(decl)
        if want is not None and got != want:
            raise OutOfSubset('signature changed: parameters %r' % (got,))
        for n, t in got:
            if n in claim.get('opaque_params', ()):      # used only through the declared abstractions (interface calls)
                continue
            if t not in COQTY:
                raise OutOfSubset('parameter %s of type %s' % (n, t))
            env[n] = V(tr.cname(n), t)
            binders.append('(%s : %s)' % (tr.cname(n), coqty(t)))
        res = results_of(decl)
        if claim.get('results') is not None and [t for _, t in res] != claim['results']:
            raise OutOfSubset('signature changed: results %r' % (res,))
        for n, t in res:
            if n and n != '_':
                if t not in ('int', 'float64', 'bool'):
                    raise OutOfSubset('named result %s of type %s' % (n, t))
                env[n] = V({'int': '0', 'float64': flit(0.0), 'bool': 'false'}[t], t)      # Go: zero value
    binders += claim.get('extra_binders', [])
    stmts = find_fragment(decl['Body'], claim['frag'])
    if claim['frag']['kind'] != 'whole':
        def k(e):
            fin = claim['result'].get('fall')       # the fragment's result when control reaches its end
            if fin is None:
                raise OutOfSubset('control reaches the end of the fragment without a return')
            return tr.finish([e[x].term for x in fin], e)
    else:
        def k(e):
            if not claim['result'].get('fall_unit'):
                raise OutOfSubset('control reaches the end of the function without a return')
            return tr.finish([], e)
    term = tr.block(stmts, env, k)
    text = 'Definition go_%s %s : %s :=\n  %s.' % (claim['id'], ' '.join(binders), claim['coq_result'], term)
    seen, sk = set(), []
    for x in tr.skipped:
        if x not in seen:
            seen.add(x)
            sk.append(x)
    return text, sk


# Each claim: which Go function (or fragment), how its environment maps onto the model's types, the result shape.
#   binders : (Go key, Gallina term, Go type, Gallina binder)   `$` = the receiver's name in the source
CTRL = 'internal/controller/controller.go'
PKG_CONSTS = {'MaxPwmValue': 'MaxPwmValue', 'MinPwmValue': 'MinPwmValue'}
# HwMonFan as the model's `fan` record: the fields a limit getter/setter can read or write
HWMON_FIELDS = [('#fk', '(fk f)', 'enum:kind', '(f : fan)'), ('$.Config.NeverStop', '(never_stop f)', 'bool', None),
                ('$.Config.MinPwm', '(cfg_min f)', '*int', None), ('$.Config.StartPwm', '(cfg_start f)', '*int', None),
                ('$.Config.MaxPwm', '(cfg_max f)', '*int', None), ('$.MinPwm', '(cur_min f)', '*int', None),
                ('$.StartPwm', '(cur_start f)', '*int', None), ('$.MaxPwm', '(cur_max f)', '*int', None),
                ('$.RpmMovingAvg', '(rpm_avg f)', 'float64', None), ('#rpm_last', '(rpm_last f)', 'int', None),
                ('#has_rpm', '(has_rpm f)', 'bool', None), ('#has_mode', '(has_mode f)', 'bool', None)]
HWMON_STATE = ('mkFan', [k for k, _, _, _ in HWMON_FIELDS])
CLAIMS = [
    # 1 ---------------------------------------------------------------------------------------------------------
    dict(id='DirectCycle', file='internal/control_loop/direct.go', recv='DirectControlLoop', func='Cycle',
         model='Model.ControlLoop.direct_cycle',
         frag=dict(kind='whole'), params=[('target', 'int'), ('current', 'int')], results=['int'],
         binders=[('$.maxPwmChangePerCycle', 'lim', '*int', '(lim : option Z)')],
         clock=dict(last='$.lastTime', started=None),
         result=dict(kind='values', types=['int']), coq_result='Z'),
    # 2 ---------------------------------------------------------------------------------------------------------
    dict(id='PidLoop', file='internal/util/pid.go', recv='PidLoop', func='Loop',
         model='Model.ControlLoop.pid_loop',
         frag=dict(kind='whole'), params=[('target', 'float64'), ('measured', 'float64')], results=['float64'],
         binders=[('$.p', '(kp s)', 'float64', '(s : pidst)'), ('$.i', '(ki s)', 'float64', None), ('$.d', '(kd s)', 'float64', None),
                  ('$.error', '(perr s)', 'float64', None), ('$.integral', '(integ s)', 'float64', None),
                  ('$started', '(started s)', 'bool', None)],
         extra_binders=['(dt_ns : Z)'],
         clock=dict(last='$.lastTime', started='$started', dt='dt_ns'),
         result=dict(kind='values', types=['float64'], state=('mkPid', ['$.p', '$.i', '$.d', '$.error', '$.integral', '$started'])),
         coq_result='pidst * float'),
    dict(id='PidCycle', file='internal/control_loop/pid.go', recv='PidControlLoop', func='Cycle',
         model='Model.ControlLoop.pid_cycle',
         frag=dict(kind='whole'), params=[('target', 'int'), ('current', 'int')], results=['int'],
         binders=[('$.pidLoop', 's', 'rec:pidst', '(s : pidst)')],
         extra_binders=['(dt_ns : Z)'],
         method_calls={'$.pidLoop.Loop': dict(coq='go_PidLoop', state='$.pidLoop', args=['float64', 'float64'], extra=['dt_ns'], ret='float64')},
         result=dict(kind='values', types=['int'], state=(None, ['$.pidLoop'])), coq_result='pidst * Z'),
    # 3 ---------------------------------------------------------------------------------------------------------
    dict(id='increaseMinPwmOffset', file=CTRL, recv='DefaultFanController', func='increaseMinPwmOffset',
         model='the `s_offset s + 1` of Model.Controller.calc_target',
         frag=dict(kind='whole'), params=[], results=[],
         binders=[('$.minPwmOffset', 'offset', 'int', '(offset : Z)'), ('$.stats.MinPwmOffset', 'stat_offset', 'int', '(stat_offset : Z)'),
                  ('$.stats.IncreasedMinPwmCount', 'stat_count', 'int', '(stat_count : Z)')],
         result=dict(kind='values', types=[], fall_unit=True,
                     state=(None, ['$.minPwmOffset', '$.stats.MinPwmOffset', '$.stats.IncreasedMinPwmCount'])),
         coq_result='Z * Z * Z'),
    dict(id='applyPwmMapping', file=CTRL, recv='DefaultFanController', func='applyPwmMapping',
         model='Model.Util.lookup (as used by Model.Util.written)',
         frag=dict(kind='whole'), params=[('target', 'int')], results=['int'],
         binders=[('$.pwmMap', 'pm', 'map[int]int', '(pm : list (Z * Z))')],
         result=dict(kind='values', types=['int']), coq_result='Z'),
    dict(id='clampTarget', file=CTRL, recv='DefaultFanController', func='calculateTargetPwm',
         model='Model.Controller.clamp_target',
         frag=dict(kind='after', anchor='target = f.controlLoop.Cycle(target, current)', count=1, kinds=['IfStmt'],
                   doc='the bounds check following the control-loop call'),
         binders=[('target', 'target_', 'int', '(target_ : Z)')],
         consts={'fans.MaxPwmValue': 'MaxPwmValue', 'fans.MinPwmValue': 'MinPwmValue'},
         result=dict(kind='values', fall=['target']), coq_result='Z'),
    dict(id='rescaleTarget', file=CTRL, recv='DefaultFanController', func='calculateTargetPwm',
         model='Model.Controller.rescale_c',
         frag=dict(kind='after', anchor='f.lastControlLoopTarget = &controlLoopTarget', count=3,
                   kinds=['AssignStmt', 'AssignStmt', 'AssignStmt'], doc='maxPwm, minPwm and the range mapping of the target'),
         binders=[('target', 'target_', 'int', '(target_ : Z)'), ('$.minPwmOffset', 'offset', 'int', '(offset : Z)')],
         abstract={'fan.GetMaxPwm()': ('fan_max', 'int'), 'fan.GetMinPwm()': ('fan_min', 'int')},
         extra_binders=['(fan_min : Z)', '(fan_max : Z)'],
         consts={'fans.MaxPwmValue': 'MaxPwmValue', 'fans.MinPwmValue': 'MinPwmValue'},
         result=dict(kind='values', fall=['target']), coq_result='Z'),
    dict(id='stallBranch', file=CTRL, recv='DefaultFanController', func='calculateTargetPwm',
         model='the never-stop / stall tail of Model.Controller.calc_target (stated as stall_tail in the tie file)',
         frag=dict(kind='after', anchor='f.ensureNoThirdPartyIsMessingWithUs()', count=None,
                   doc='everything after the third-party check: the stall test, the raise, the result'),
         binders=[('target', 'target_', 'int', '(target_ : Z)'), ('minPwm', 'minPwm_', 'int', '(minPwm_ : Z)'),
                  ('maxPwm', 'maxPwm_', 'int', '(maxPwm_ : Z)'), ('$.lastSetPwm', 'last', '*int', '(last : option Z)'),
                  ('$.minPwmOffset', 'offset', 'int', '(offset : Z)'), ('$.stats.MinPwmOffset', 'stat_offset', 'int', '(stat_offset : Z)'),
                  ('$.stats.IncreasedMinPwmCount', 'stat_count', 'int', '(stat_count : Z)'),
                  ('#rpmavg', '(@None float)', 'optfloat', None)],
         abstract={'fan.Supports(fans.FeatureRpmSensor)': ('fan_has_rpm', 'bool'), 'fan.ShouldNeverStop()': ('fan_never_stop', 'bool'),
                   'fan.GetRpmAvg()': ('fan_avg', 'float64')},
         extra_binders=['(fan_has_rpm : bool)', '(fan_never_stop : bool)', '(fan_avg : float)'],
         method_stmts={'$.increaseMinPwmOffset': dict(coq='go_increaseMinPwmOffset',
                                                      state=['$.minPwmOffset', '$.stats.MinPwmOffset', '$.stats.IncreasedMinPwmCount'])},
         effects={'fan.SetRpmAvg': dict(key='#rpmavg', argty='float64')},
         result=dict(kind='valerr', errors={'ErrFanStalledAtMaxPwm': 1},
                     state=(None, ['$.minPwmOffset', '$.stats.MinPwmOffset', '$.stats.IncreasedMinPwmCount', '#rpmavg'])),
         coq_result='(Z * Z * Z * option float) * Z * Z'),
    # 4 ---------------------------------------------------------------------------------------------------------
    dict(id='functionAgg', file='internal/curves/functional.go', recv='FunctionSpeedCurve', func='Evaluate',
         model='Model.Curves.agg',
         frag=dict(kind='only', K='SwitchStmt', doc='the aggregation switch'),
         intmode='wrap', outcome=('Curves.Val', 'Curves.Crash'),
         binders=[('values', 'values_', '[]int', '(values_ : list Z)'), ('value', '0', 'int', None)],
         abstract={'len(curves)': ('ncurves', 'int')},
         enum=dict(tag='$.Config.Function.Type', term='ty', type='fty',
                   cases={'configuration.FunctionSum': 'FSum', 'configuration.FunctionDifference': 'FDifference',
                          'configuration.FunctionDelta': 'FDelta', 'configuration.FunctionMinimum': 'FMinimum',
                          'configuration.FunctionMaximum': 'FMaximum', 'configuration.FunctionAverage': 'FAverage'}),
         extra_binders=['(ty : fty)', '(ncurves : Z)'],
         result=dict(kind='values', fall=['value']), coq_result='Curves.outcome'),
    dict(id='linearEval', file='internal/curves/linear.go', recv='LinearSpeedCurve', func='Evaluate',
         model='Model.Curves.eval_lin',
         frag=dict(kind='after', anchor='steps := c.Config.Linear.Steps', count=1, kinds=['IfStmt'],
                   doc='steps interpolation / min-max branch'),
         intmode='wrap', outcome=('Curves.Val', 'Curves.Crash'),
         binders=[('steps', '(l_steps c)', 'optmap[int]float64', '(c : lincfg)'), ('avgTemp', 'avgTemp_', 'float64', '(avgTemp_ : float)'),
                  ('value', '0', 'int', None)],
         abstract={'$.Config.Linear.Min': ('(l_min c)', 'int'), '$.Config.Linear.Max': ('(l_max c)', 'int')},
         outcome_calls={'util.CalculateInterpolatedCurveValue':
                        dict(coq='Util.interpolate', args=['map[int]float64', None, 'float64'], fixed={1: 'util.InterpolationTypeLinear'},
                             ok='IvVal', panic='IvPanic', ret='float64')},
         result=dict(kind='values', fall=['value']), coq_result='Curves.outcome'),
    # 5 ---------------------------------------------------------------------------------------------------------
    dict(id='ComputePwmBoundaries', file='internal/fans/common.go', recv='', func='ComputePwmBoundaries',
         model='Model.Fan.ComputePwmBoundaries / bounds_loop',
         frag=dict(kind='whole'), params=[('fan', 'Fan')], results=['int', 'int'], opaque_params=('fan',),
         abstract={'fan.GetStartPwm()': ('userStart', 'int'), 'fan.GetFanRpmCurveData()': ('data', '*map[int]float64')},
         extra_binders=['(userStart : Z)', '(data : list (Z * float))'],
         sorted_keys=dict(map='pwmRpmMap', keys='keys'),
         result=dict(kind='values', types=['int', 'int']), coq_result='Z * Z'),
    # 6 ---------------------------------------------------------------------------------------------------------
    dict(id='CheckFilePermissions', file='internal/util/file.go', recv='', func='CheckFilePermissionsForExecution',
         model='Model.Exec.decide / allowed',
         frag=dict(kind='after', anchor='stat := info.Sys().(*syscall.Stat_t)', count=None,
                   doc='the decision on (uid, gid, mode) after the stat call'),
         abstract={'stat.Uid': ('uid', 'int'), 'stat.Gid': ('gid', 'int'), 'info.Mode()': ('mode', 'int')},
         extra_binders=['(uid : Z)', '(gid : Z)', '(mode : Z)'],
         result=dict(kind='okerr', errors={'"owner is not root"': 'Exec.ErrOwner',
                                           '"group is not root but has write permission"': 'Exec.ErrGroupWrite',
                                           '"others have write permission"': 'Exec.ErrOtherWrite'}),
         coq_result='option Exec.perm_err'),
    # 7 (beyond the list): the limit getters/setters of HwMonFan --------------------------------------------------
] + [
    dict(id='HwMon' + fn, file='internal/fans/hwmon.go', recv='HwMonFan', func=fn, model='Model.Fan.%s (fk = HwMon)' % fn,
         frag=dict(kind='whole'), params=ps, results=rs, binders=HWMON_FIELDS, consts=PKG_CONSTS,
         abstract={'$.ShouldNeverStop()': ('(never_stop f)', 'bool')},
         result=res, coq_result=cr)
    for fn, ps, rs, res, cr in [
        ('GetMinPwm', [], ['int'], dict(kind='values', types=['int']), 'Z'),
        ('GetStartPwm', [], ['int'], dict(kind='values', types=['int']), 'Z'),
        ('GetMaxPwm', [], ['int'], dict(kind='values', types=['int']), 'Z'),
        ('GetRpmAvg', [], ['float64'], dict(kind='values', types=['float64']), 'float'),
        ('ShouldNeverStop', [], ['bool'], dict(kind='values', types=['bool']), 'bool'),
        ('SetMinPwm', [('pwm', 'int'), ('force', 'bool')], [], dict(kind='values', types=[], fall_unit=True, state=HWMON_STATE), 'fan'),
        ('SetStartPwm', [('pwm', 'int'), ('force', 'bool')], [], dict(kind='values', types=[], fall_unit=True, state=HWMON_STATE), 'fan'),
        ('SetMaxPwm', [('pwm', 'int'), ('force', 'bool')], [], dict(kind='values', types=[], fall_unit=True, state=HWMON_STATE), 'fan'),
        ('SetRpmAvg', [('rpm', 'float64')], [], dict(kind='values', types=[], fall_unit=True, state=HWMON_STATE), 'fan'),
    ]
]

# Considered and NOT claimed (outside the subset; their tie rests on the correspondence harness alone):
NOT_CLAIMED = [
    ('internal/controller/controller.go calculateTargetPwm: the prefix (choice of lastSetPwm, getPwm, curve.Evaluate, the control-loop call)',
     'interleaved with device I/O and error returns of interface calls; the bounds check, the range mapping and the whole stall tail '
     'ARE translated as fragments, and Proofs/LeafTie2_calcTarget.v shows the model function is their composition'),
    ('internal/controller/controller.go ensureNoThirdPartyIsMessingWithUs', 'if-with-init over an I/O call'),
    ('internal/curves/functional.go Evaluate: the two member loops', 'calls into the curve registry and recursive Evaluate with early return'),
    ('internal/util/math.go FindClosest, CalculateInterpolatedCurveValue', '3-clause for loops with index arithmetic / sorted map iteration with break'),
    ('internal/util/file.go CheckFilePermissionsForExecution: EvalSymlinks/Stat prefix', 'OS calls; modelled by Model.Exec.resolve over an abstract file system'),
]


def generate(repo):
    t0 = time.time()
    specs = sorted(set('%s:%s.%s' % (c['file'], c.get('recv', ''), c['func']) for c in CLAIMS))
    asts = dump_asts(repo, specs)
    pinned = json.load(open(PINNED)) if os.path.exists(PINNED) else {}
    out = ['(* GENERATED by tools/gen_leaf2.py (+ tools/leaf2, go/ast) from /repo — do not edit.',
           '   Subset of Go handled: see the header of tools/gen_leaf2.py. *)',
           'From Coq Require Import ZArith Bool List Floats.',
           'From F2G Require Import Go.GoFloat gen.Consts Model.Util Model.Fan Model.ControlLoop Model.Curves Model.Exec.',
           'Import ListNotations.',
           'Open Scope Z_scope.', '']
    notes, produced = [], {}
    methods = {}
    for c in CLAIMS:
        spec = '%s:%s.%s' % (c['file'], c.get('recv', ''), c['func'])
        where = '%s %s%s%s' % (c['file'], (c['recv'] + '.') if c.get('recv') else '', c['func'],
                               '' if c['frag']['kind'] == 'whole' else ' [fragment: %s]' % c['frag'].get('doc', c['frag']['kind']))
        try:
            decl = asts[spec]
            if 'error' in decl:
                raise OutOfSubset(decl['error'])
            text, skipped = translate(c, decl, methods)
            out.append('(* %s  <->  %s *)' % (where, c['model']))
            for sk in skipped:
                out.append('(*   skipped: %s *)' % sk.replace('*)', '* )'))
            out.append(text)
            out.append('Definition Translated_%s : bool := true.' % c['id'])
            produced[c['id']] = text
        except OutOfSubset as e:
            msg = str(e).replace('*)', '* )')
            out.append('(* %s NOT translated from the current source: %s' % (where, msg))
            out.append('   the definition below is the translation of the PINNED tree (tools/leaf2_pinned.json) *)')
            if c['id'] not in pinned:
                raise RuntimeError('gen_leaf2: %s is outside the subset and has no pinned translation: %s' % (c['id'], msg))
            out.append(pinned[c['id']])
            out.append('Definition Translated_%s : bool := false.' % c['id'])
            notes.append('NOT-TRANSLATED %s (%s)' % (c['id'], msg[:120]))
            out.append('')
    out.append('(* Considered and NOT claimed by this translator (outside the subset; tied by the correspondence harness only):')
    for w, why in NOT_CLAIMED:
        out.append('   - %s: %s' % (w, why.replace('*)', '* )')))
    out.append('*)')
    generate.produced = produced
    note = '%d/%d functions translated in %.2fs' % (len(produced), len(CLAIMS), time.time() - t0)
    return '\n'.join(out), '; '.join([note] + notes)


if __name__ == '__main__':
    args = [a for a in sys.argv[1:] if not a.startswith('--')]
    text, note = generate(args[0] if args else '/repo')
    if '--pin' in sys.argv:
        json.dump(generate.produced, open(PINNED, 'w'), indent=1, sort_keys=True)
        sys.stderr.write('pinned %d definitions\n' % len(generate.produced))
    else:
        sys.stdout.write(text)
    sys.stderr.write(note + '\n')
