module leaf2

go 1.21
