// leaf2 dumps the go/ast syntax trees of selected function declarations as JSON
// (one object per requested function) for tools/gen_leaf2.py, which translates
// a stated subset of Go into Gallina (coq/gen/Leaf2.v).
//
// usage: leaf2 <repo> <file>:<recv>.<func> ...     (recv empty for plain functions)
//
// Only the standard library (go/parser, go/ast, go/printer) is used. Every node
// is dumped generically by reflection: {"K": "<node type>", <field>: ...};
// token positions are dropped except "Line" on statements; "Src" carries the
// canonical go/printer text of every expression and statement.
package main

import (
	"bytes"
	"encoding/json"
	"fmt"
	"go/ast"
	"go/parser"
	"go/printer"
	"go/token"
	"os"
	"path/filepath"
	"reflect"
	"strings"
)

var fset = token.NewFileSet()

func src(n ast.Node) string {
	var b bytes.Buffer
	_ = printer.Fprint(&b, fset, n)
	return b.String()
}

func dump(v reflect.Value) interface{} {
	if !v.IsValid() {
		return nil
	}
	switch v.Kind() {
	case reflect.Interface, reflect.Ptr:
		if v.IsNil() {
			return nil
		}
		if v.Kind() == reflect.Ptr {
			if _, ok := v.Interface().(*ast.Object); ok {
				return nil
			}
			if _, ok := v.Interface().(*ast.Scope); ok {
				return nil
			}
			if _, ok := v.Interface().(*ast.CommentGroup); ok {
				return nil
			}
		}
		return dump(v.Elem())
	case reflect.Slice:
		out := make([]interface{}, 0, v.Len())
		for i := 0; i < v.Len(); i++ {
			out = append(out, dump(v.Index(i)))
		}
		return out
	case reflect.Struct:
		m := map[string]interface{}{"K": v.Type().Name()}
		if v.CanAddr() {
			if n, ok := v.Addr().Interface().(ast.Node); ok {
				switch n.(type) {
				case ast.Expr:
					m["Src"] = src(n)
				case ast.Stmt:
					m["Src"] = src(n)
					m["Line"] = fset.Position(n.Pos()).Line
				}
			}
		}
		for i := 0; i < v.NumField(); i++ {
			f := v.Type().Field(i)
			fv := v.Field(i)
			switch fv.Interface().(type) {
			case token.Pos:
				continue
			case token.Token:
				m[f.Name] = fv.Interface().(token.Token).String()
				continue
			}
			m[f.Name] = dump(fv)
		}
		return m
	case reflect.String:
		return v.String()
	case reflect.Bool:
		return v.Bool()
	case reflect.Int, reflect.Int64:
		return v.Int()
	}
	return fmt.Sprintf("?%s", v.Kind())
}

func main() {
	if len(os.Args) < 3 {
		fmt.Fprintln(os.Stderr, "usage: leaf2 <repo> <file>:<recv>.<func> ...")
		os.Exit(2)
	}
	repo := os.Args[1]
	files := map[string]*ast.File{}
	out := map[string]interface{}{}
	for _, spec := range os.Args[2:] {
		i := strings.LastIndex(spec, ":")
		rel, fn := spec[:i], spec[i+1:]
		j := strings.Index(fn, ".")
		recv, name := fn[:j], fn[j+1:]
		f, ok := files[rel]
		if !ok {
			var err error
			f, err = parser.ParseFile(fset, filepath.Join(repo, rel), nil, parser.SkipObjectResolution)
			if err != nil {
				out[spec] = map[string]interface{}{"error": err.Error()}
				continue
			}
			files[rel] = f
		}
		var found *ast.FuncDecl
		for _, d := range f.Decls {
			fd, ok := d.(*ast.FuncDecl)
			if !ok || fd.Name.Name != name {
				continue
			}
			r := ""
			if fd.Recv != nil && len(fd.Recv.List) == 1 {
				t := fd.Recv.List[0].Type
				if s, ok := t.(*ast.StarExpr); ok {
					t = s.X
				}
				if id, ok := t.(*ast.Ident); ok {
					r = id.Name
				}
			}
			if r == recv {
				found = fd
			}
		}
		if found == nil {
			out[spec] = map[string]interface{}{"error": "function not found"}
			continue
		}
		out[spec] = dump(reflect.ValueOf(found))
	}
	enc := json.NewEncoder(os.Stdout)
	if err := enc.Encode(out); err != nil {
		fmt.Fprintln(os.Stderr, err)
		os.Exit(1)
	}
}
