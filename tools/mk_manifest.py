#!/usr/bin/env python3
"""Regenerate /verif/MANIFEST.json from lib/props/*.py (claimed properties) and properties.jsonl."""
import json, os, sys
V = os.path.dirname(os.path.dirname(os.path.abspath(__file__)))
sys.path.insert(0, os.path.join(V, 'lib'))
import registry
ids = [json.loads(l)['id'] for l in open(os.path.join(V, 'properties.jsonl')) if l.strip()]
checks, na = [], []
for pid in ids:
    spec = registry.PROPS.get(pid)
    if spec and spec.get('claimed'):
        checks.append({
            'property_id': pid,
            'quick_cmd': './check %s --tier quick' % pid,
            'thorough_cmd': './check %s --tier thorough' % pid,
            'evidence_file': '/verif/evidence/%s.json' % pid,
            'replay_cmd_template': './check %s --replay {path}' % pid,
            'engine': 'coq-proof+correspondence',
            'level_claimed': {'category': 'proof', 'text': spec['level_text'], 'design_ref': spec.get('design_ref', 'DESIGN.md section 5 ' + pid)},
            'level_note': spec['level_note'],
            'technique': spec.get('technique', 'machine-checked proof in Coq 8.16.1 over an executable model + differential correspondence check against the Go code'),
        })
    else:
        na.append({'property_id': pid, 'reason': (spec or {}).get('na_reason', 'check not built yet (work in progress; claimed as soon as its theorem and driver exist)')})
old = json.load(open(os.path.join(V, 'MANIFEST.json')))
m = {
    'version': 1, 'setup_cmd': './setup.sh', 'hooks': old['hooks'],
    'engines': [{'name': 'coq-proof+correspondence', 'path': '/verif/check',
                 'serves_properties': [c['property_id'] for c in checks],
                 'kind_free_text': old['engines'][0]['kind_free_text']}],
    'checks': checks, 'not_applicable': na, 'notes': 'see DESIGN.md',
}
json.dump(m, open(os.path.join(V, 'MANIFEST.json'), 'w'), indent=1)
print('claimed:', [c['property_id'] for c in checks])
