#!/usr/bin/env python3
"""Maintenance script for property C20 (NOT run by ./check).

Computes the racy groups (memory cell x unordered goroutine-kind pair) of the current gen/Accesses.v inside Coq,
merges them with the codes already recorded in coq/Model/RaceFindings.v (existing codes never change, new groups
get the next free code) and
  * rewrites coq/Model/RaceFindings.v  (the explicit list the theorem C20_race_free_modulo quantifies over),
  * prints the `finding: property=C20 key=R<nn> ...` lines that are not yet in known_findings.txt
    (append them by hand / with >>: known_findings.txt is append-only and never written at run time).
Usage: python3 tools/mk_race_findings.py [--write]      (run ./coqmake Model/Races.vo gen/Accesses.vo first)"""
import json, os, re, subprocess, sys

VERIF = os.path.dirname(os.path.dirname(os.path.abspath(__file__)))
FIND_V = os.path.join(VERIF, 'coq', 'Model', 'RaceFindings.v')
ROW = re.compile(r'\(\s*\(\s*"([^"]*)"\s*,\s*(K\w+)\s*,\s*(K\w+)\s*\)\s*,\s*(\d+)\s*\)')
GRP = re.compile(r'\(\s*"([^"]*)"\s*,\s*(K\w+)\s*,\s*(K\w+)\s*\)')


def existing():
    if not os.path.exists(FIND_V):
        return {}
    return {(m.group(1), m.group(2), m.group(3)): int(m.group(4)) for m in ROW.finditer(open(FIND_V).read())}


def current_groups():
    d = os.path.join(VERIF, 'work', 'mk_race_findings')
    os.makedirs(d, exist_ok=True)
    src = os.path.join(d, 'g.v')
    open(src, 'w').write('''From Coq Require Import ZArith List String.
From F2G Require Import Model.Races gen.Accesses.
Import ListNotations.
Fixpoint dedup (l : list group) : list group :=
  match l with [] => [] | x :: r => if existsb (group_eqb x) r then dedup r else x :: dedup r end.
Definition gs := Eval vm_compute in dedup (racy_groups table).
Print gs.
''')
    p = subprocess.run(['coqc', '-Q', os.path.join(VERIF, 'coq'), 'F2G', src], cwd=d, stdout=subprocess.PIPE,
                       stderr=subprocess.STDOUT, text=True, timeout=600)
    if p.returncode != 0:
        sys.exit('coqc failed:\n' + p.stdout[-2000:])
    return [(m.group(1), m.group(2), m.group(3)) for m in GRP.finditer(p.stdout)]


def sample_sites(group):
    """One conflicting pair of sites for the finding text."""
    try:
        acc = json.load(open(os.path.join(VERIF, 'work', 'accesses', 'accesses.json')))['accesses']
    except Exception:
        return ''
    loc, ka, kb = group
    A = [a for a in acc if a['loc'] == loc and a['kind'] == ka]
    B = [a for a in acc if a['loc'] == loc and a['kind'] == kb]
    for a in sorted(A, key=lambda a: (a['mode'] != 'W', a['file'], a['line'])):
        for b in sorted(B, key=lambda a: (a['file'], a['line'])):
            if (a['mode'], b['mode']) in (('R', 'R'), ('S', 'S')) or set(a['locks'] or []) & set(b['locks'] or []):
                continue
            f = lambda x: '%s %s:%d%s' % (x['mode'], x['file'].replace('internal/', ''), x['line'],
                                           ' [%s]' % ','.join(x['locks']) if x['locks'] else '')
            return 'e.g. %s vs %s' % (f(a), f(b))
    return ''


SITES = os.path.join(VERIF, 'lib', 'props', 'C20_sites.json')


def write_sites():
    """Record, for every listed finding, the access sites (goroutine kind, mode, function, lockset) the table has for it
    now.  The race driver reports a site that is not in this list as a failing case: a recorded finding that gains an
    access site (e.g. a rarely executed unguarded write that now happens on every control cycle) has to be re-triaged."""
    acc = json.load(open(os.path.join(VERIF, 'work', 'accesses', 'accesses.json')))['accesses']
    res = {}
    for (loc, ka, kb), n in sorted(existing().items(), key=lambda kv: kv[1]):
        sites = sorted({'%s %s %s%s' % (a['kind'], a['mode'], a['func'].replace('github.com/markusressel/fan2go/internal/', ''),
                                        ' [%s]' % ','.join(a['locks']) if a['locks'] else '')
                        for a in acc if a['loc'] == loc and a['kind'] in (ka, kb)})
        res['%s|%s|%s' % (loc, ka, kb)] = sites
    json.dump(res, open(SITES, 'w'), indent=0, sort_keys=True)
    sys.stderr.write('wrote %s (%d groups)\n' % (SITES, len(res)))


def main():
    if '--sites' in sys.argv:
        write_sites()
        return
    ex = existing()
    cur = current_groups()
    nxt = max(ex.values(), default=0) + 1
    order = ['KSensorMon', 'KRpmMon', 'KControl', 'KPrelude', 'KApi', 'KMetrics', 'KWebStart', 'KAux']
    for g in sorted(set(cur), key=lambda g: (g[0], order.index(g[1]), order.index(g[2]))):
        if g not in ex:
            ex[g] = nxt
            nxt += 1
    rows = sorted(ex.items(), key=lambda kv: kv[1])
    gone = [g for g in ex if g not in set(cur)]
    text = ['(* Recorded findings of property C20 (defect D21): memory cell x unordered pair of goroutine kinds that',
            '   race on it according to Model/Races.v over gen/Accesses.v.  Maintained with tools/mk_race_findings.py;',
            '   committed; code n <-> key R<nn> in known_findings.txt.  An entry that no longer races is harmless',
            '   (C20_race_free_modulo only needs every racy pair to be listed); codes are never reused. *)',
            'From Coq Require Import ZArith List String.',
            'From F2G Require Import Model.Races.',
            'Import ListNotations.',
            'Open Scope string_scope.',
            'Open Scope Z_scope.',
            '',
            'Definition findings : list finding := [']
    text.append(';\n'.join('  (("%s", %s, %s), %d)' % (g[0], g[1], g[2], n) for g, n in rows))
    text.append('].')
    out = '\n'.join(text) + '\n'
    known = open(os.path.join(VERIF, 'known_findings.txt')).read()
    lines = []
    for g, n in rows:
        key = 'R%02d' % n
        if re.search(r'property=C20\s+key=%s\b' % key, known):
            continue
        lines.append('finding: property=C20 key=%s %s %s/%s D21 unguarded shared access %s' % (key, g[0], g[1], g[2], sample_sites(g)))
    if '--write' in sys.argv:
        open(FIND_V, 'w').write(out)
        sys.stderr.write('wrote %s (%d findings, %d no longer racing)\n' % (FIND_V, len(rows), len(gone)))
    else:
        sys.stderr.write('%d findings (%d no longer racing); use --write to update %s\n' % (len(rows), len(gone), FIND_V))
    for l in lines:
        print(l.rstrip())


if __name__ == '__main__':
    main()
