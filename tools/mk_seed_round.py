#!/usr/bin/env python3
"""tools/mk_seed_round.py <N>: prepare /tmp/seed<N>/ for a round of independent seeded-change engineers:
one scratch git worktree of /repo HEAD per property, a -modfile with the libsensors stand-in, the property text
with the list of ideas already used (from the previous round's property files + README titles under /verif/seeded),
and the prompt. Nothing from /verif's machinery is copied except the stand-in for the cgo binding."""
import json, os, re, shutil, subprocess, sys, glob
N = sys.argv[1]
prev = sys.argv[2] if len(sys.argv) > 2 else str(int(N) - 1)
base = '/tmp/seed' + N
os.makedirs(base, exist_ok=True)
shutil.copytree('/verif/harness/gosensors_stub', base + '/stub', dirs_exist_ok=True)
props = {json.loads(l)['id']: json.loads(l) for l in open('/verif/properties.jsonl')}
prompt = open('/verif/docs/seed_prompt.txt').read().replace('/tmp/seedN', base)
open(base + '/PROMPT.txt', 'w').write(prompt)
open(base + '/README_build.md', 'w').write(open('/verif/docs/seed_build.md').read().replace('/tmp/seedN', base))
for pid, p in sorted(props.items()):
    wt = os.path.join(base, pid)
    subprocess.run(['git', '-C', '/repo', 'worktree', 'remove', '--force', wt], stdout=subprocess.DEVNULL, stderr=subprocess.DEVNULL)
    shutil.rmtree(wt, ignore_errors=True)
    subprocess.check_call(['git', '-C', '/repo', 'worktree', 'add', '-q', '--detach', wt, 'HEAD'])
    open(os.path.join(base, pid + '.mod'), 'w').write(open(wt + '/go.mod').read() + '\nreplace github.com/md14454/gosensors => %s/stub\n' % base)
    shutil.copy(wt + '/go.sum', os.path.join(base, pid + '.sum'))
    os.makedirs(wt + '/out', exist_ok=True)
    open(wt + '/out/go.mod', 'w').write('module seedout\n\ngo 1.22\n')
    ideas = []
    old = '/verif/docs/seed_ideas/%s.txt' % pid
    if os.path.exists(old):
        ideas = [l[2:].strip() for l in open(old) if l.startswith('- ')]
    for d in sorted(glob.glob('/verif/seeded/%s-*' % pid)):
        r = os.path.join(d, 'README.md')
        if os.path.exists(r):
            t = re.sub(r'^#\s*', '', open(r).readline().strip())
            t = re.sub(r'^(C\d\d[ /,-]*)?(seed,?\s*)?(variant\s*)?[ab]?\s*[-—:]*\s*', '', t, flags=re.I)
            if t and t not in ideas and not any(t[:25] in i for i in ideas):
                ideas.append(t)
    q = p.get('quantifier', {})
    txt = 'PROPERTY %s: %s\n\nStatement: %s\n\nQuantified over: %s\n\nWhy the existing tests cannot settle it: %s\n\nRelevant source files: %s\n\n' % (
        pid, p['title'], p['statement'], q.get('text', ''), p.get('why_tests_cant', ''), ', '.join(p.get('anchors', {}).get('files', [])))
    txt += 'IDEAS ALREADY USED by earlier engineers (do NOT repeat these or close variants of them; find different mechanisms, other code sites, other clauses of the property, other packages that the property depends on indirectly):\n'
    txt += ''.join('- %s\n' % i for i in ideas)
    open(os.path.join(base, pid + '.property.txt'), 'w').write(txt)
print('prepared', base)
