#!/usr/bin/env python3
"""Print the markdown table of seeded changes (DESIGN.md section 13) from seeded/*/meta.json and README.md."""
import glob, json, os, re
V = os.path.dirname(os.path.dirname(os.path.abspath(__file__)))
rows = []
for d in sorted(glob.glob(os.path.join(V, 'seeded', '*'))):
    mp = os.path.join(d, 'meta.json')
    if not os.path.exists(mp):
        continue
    m = json.load(open(mp))
    rd = ''
    rp = os.path.join(d, 'README.md')
    if os.path.exists(rp):
        txt = open(rp).read()
        # first sentence that describes the change
        cand = [l.strip(' -*#`') for l in txt.splitlines() if len(l.strip()) > 40 and not l.startswith('```')]
        rd = (cand[0] if cand else '')[:170]
    how = 'MISSED'
    if m.get('detected'):
        how = 'failing input' if m.get('detected_with_failing_input') else 'tie/correspondence broken, no failing input'
    s = (m.get('check', {}).get('summary') or [''])[0]
    mf = re.search(r'M=(\d+) F=(\d+)', s)
    rows.append('| %s | %s | %s | %s | %s |' % (m['name'], 'yes' if m.get('confirmed') else 'NOT CONFIRMED', how,
                                              ('M=%s F=%s' % mf.groups()) if mf else '', rd.replace('|', '/')))
print('| seeded change | confirmed (builds, suite passes, demo fails only with it) | result of `./check <id> --tier quick` | cases differing / failing | what it does |')
print('|---|---|---|---|---|')
print('\n'.join(rows))
