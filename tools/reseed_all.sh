#!/bin/sh
# usage: tools/reseed_all.sh [pattern]  -- re-run tools/seedtest.py for every stored seeded change (seeded/<name>/),
# against the current /repo HEAD and the current machinery; PAR in parallel (default 3). Rewrites seeded/<name>/meta.json.
cd /verif
ls -d seeded/${1:-C}*/ | while read d; do
  name=$(basename "$d"); pid=${name%%-*}
  echo "$pid $d $name"
done | xargs -P ${PAR:-3} -L 1 sh -c 'python3 tools/seedtest.py $0 $1 $2 2>&1 | tail -1'
