#!/bin/sh
# run tools/seedtest.py for every delivered variant that has no meta.json yet (4 in parallel)
cd /verif
ls -d /tmp/seed/C*/out/*/ 2>/dev/null | while read d; do
  [ -f "$d/patch.diff" ] || continue
  pid=$(echo "$d" | sed 's#/tmp/seed/\(C[0-9]*\)/out/.*#\1#'); v=$(basename "$d")
  [ -f "seeded/$pid-$v/meta.json" ] && [ -z "$FORCE" ] && continue
  echo "$pid $d"
done | xargs -P 4 -L 1 sh -c 'python3 tools/seedtest.py $0 $1 2>&1 | tail -1'
