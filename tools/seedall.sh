#!/bin/sh
# usage: tools/seedall.sh [base=/tmp/seed] [round-tag=""]  -- run tools/seedtest.py for every delivered variant
# <base>/Cxx/out/<v>/patch.diff that has no seeded/Cxx-<tag><v>/meta.json yet (PAR in parallel, default 3)
base=${1:-/tmp/seed}; tag=${2:-}
cd /verif
ls -d $base/C*/out/*/ 2>/dev/null | while read d; do
  [ -f "$d/patch.diff" ] || continue
  pid=$(echo "$d" | sed "s#$base/\(C[0-9]*\)/out/.*#\1#"); v=$(basename "$d")
  [ -f "seeded/$pid-$tag$v/meta.json" ] && [ -z "$FORCE" ] && continue
  echo "$pid $d $pid-$tag$v"
done | xargs -P ${PAR:-3} -L 1 sh -c 'python3 tools/seedtest.py $0 $1 $2 2>&1 | tail -1'
