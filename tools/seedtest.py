#!/usr/bin/env python3
"""tools/seedtest.py <property-id> <variant-dir> [name]

Confirm a seeded property-breaking change and run the property's check against it, in isolation:
  1. scratch worktree of /repo HEAD under /tmp/seedtest/<name>; the demonstration must PASS there;
  2. apply <variant-dir>/patch.diff; it must build; the existing test suite must still pass; the
     demonstration must FAIL;
  3. ./check <id> --tier quick with VERIF_REPO=<worktree> and VERIF_COQ=<private copy of /verif/coq>
     (equivalent to `git -C /repo apply` + check + `git checkout -- .`, but does not disturb /repo);
  4. store patch, demonstration and meta.json under /verif/seeded/<name>/; remove the scratch copies.
"""
import json, os, re, shutil, subprocess, sys, time

VERIF = os.path.dirname(os.path.dirname(os.path.abspath(__file__)))
ENV = dict(os.environ, GOFLAGS='-mod=mod', GOPROXY='off', GOSUMDB='off', GOTOOLCHAIN='local', CGO_ENABLED='0')


def sh(cmd, cwd=None, env=None, timeout=3000):
    p = subprocess.run(cmd, cwd=cwd, env=env or ENV, stdout=subprocess.PIPE, stderr=subprocess.STDOUT, text=True,
                       errors='replace', timeout=timeout, shell=isinstance(cmd, str))
    return p.returncode, p.stdout


def main():
    pid, vdir = sys.argv[1], os.path.abspath(sys.argv[2])
    name = sys.argv[3] if len(sys.argv) > 3 else '%s-%s' % (pid, os.path.basename(vdir))
    root = '/tmp/seedtest'
    os.makedirs(root, exist_ok=True)
    wt = os.path.join(root, name)
    coqcopy = os.path.join(root, 'coq_' + name)
    meta = {'property': pid, 'name': name, 'source': vdir, 'at': time.strftime('%Y-%m-%dT%H:%M:%SZ', time.gmtime())}
    subprocess.run(['git', '-C', '/repo', 'worktree', 'remove', '--force', wt], stdout=subprocess.DEVNULL, stderr=subprocess.DEVNULL)
    shutil.rmtree(wt, ignore_errors=True)
    rc, out = sh(['git', '-C', '/repo', 'worktree', 'add', '--detach', wt, 'HEAD'])
    if rc != 0:
        print(out); return 2
    meta['repo_head'] = sh(['git', '-C', '/repo', 'rev-parse', '--short', 'HEAD'])[1].strip()
    try:
        modfile = os.path.join(root, name + '.mod')
        open(modfile, 'w').write(open(os.path.join(wt, 'go.mod')).read() +
                                 '\nreplace github.com/md14454/gosensors => %s\n' % os.path.join(VERIF, 'harness', 'gosensors_stub'))
        shutil.copy(os.path.join(wt, 'go.sum'), os.path.join(root, name + '.sum'))
        # ---- locate the demonstration
        demos = [f for f in sorted(os.listdir(vdir)) if f.endswith('.go')]
        readme = open(os.path.join(vdir, 'README.md')).read() if os.path.exists(os.path.join(vdir, 'README.md')) else ''
        placed = []
        for d in demos:
            txt = open(os.path.join(vdir, d)).read()
            m = re.search(r'((?:internal|cmd)/[\w/]+?)/?(\w+_test\.go)?\b', txt[:3000])
            pkgm = re.search(r'^package (\w+)', txt, re.M)
            target_dir = os.environ.get('SEED_DEMO_DIR')

            def pkg_of(dirpath):
                for fn in sorted(os.listdir(dirpath)):
                    if fn.endswith('.go') and not fn.endswith('_test.go'):
                        mm = re.search(r'^package (\w+)', open(os.path.join(dirpath, fn)).read(), re.M)
                        if mm:
                            return mm.group(1)
                return None
            want = re.sub(r'_test$', '', pkgm.group(1)) if pkgm else None
            cands = [re.sub(r'/\w+_test$', '', c).rstrip('/') for c in
                     re.findall(r'((?:internal|cmd)(?:/[A-Za-z_0-9]+)*)', txt[:3000] + '\n' + readme)]
            for strict in (True, False):
                for cand in cands:
                    if target_dir is None and os.path.isdir(os.path.join(wt, cand)) and cand not in ('cmd',) \
                            and (not strict or pkg_of(os.path.join(wt, cand)) == want) and (strict or cand != 'internal'):
                        target_dir = cand
            if target_dir is None and pkgm and pkgm.group(1) == 'main':
                target_dir = os.path.join('cmd', 'seeddemo_' + d[:-3])
                os.makedirs(os.path.join(wt, target_dir), exist_ok=True)
            if target_dir is None:
                print('cannot place demo', d); return 2
            dst = os.path.join(wt, target_dir, 'zz_seed_' + d if d.endswith('_test.go') else 'zz_seed_' + d[:-3] + '_test.go')
            if pkgm and pkgm.group(1) == 'main' and not d.endswith('_test.go'):
                dst = os.path.join(wt, target_dir, 'main.go')
            shutil.copy(os.path.join(vdir, d), dst)
            placed.append((target_dir, dst))
        meta['demo_placed'] = [os.path.relpath(p, wt) for _, p in placed]
        pkgs = sorted({'./' + t for t, _ in placed})

        def run_demo():
            res = []
            for t, p in placed:
                if p.endswith('main.go'):
                    res.append(sh(['go', 'run', '-modfile=' + modfile, './' + t], cwd=wt, timeout=900))
                else:
                    res.append(sh(['go', 'test', '-modfile=' + modfile, '-vet=off', '-count=1', '-run', 'Seed|seed|SEED', './' + t], cwd=wt, timeout=900))
            return res
        # race demos
        race = 'race' in readme.lower() and pid == 'C20'
        if race:
            def run_demo():
                e = dict(ENV, CGO_ENABLED='1')
                return [sh(['go', 'test', '-race', '-modfile=' + modfile, '-vet=off', '-count=1', '-run', 'Seed|seed|SEED', './' + t], cwd=wt, env=e, timeout=1200)
                        for t, _ in placed]
        base = run_demo()
        meta['demo_without_patch_rc'] = [r[0] for r in base]
        # ---- apply the change
        rc, out = sh(['git', 'apply', os.path.join(vdir, 'patch.diff')], cwd=wt)
        if rc != 0:   # the tree moved on since the change was written (later fix: commits)
            # 1. a hand-rebased copy of the same change (patch.rebased-on-<commit>.diff), newest first
            for rb in sorted([f for f in os.listdir(vdir) if f.startswith('patch.rebased-on-')], reverse=True):
                rc, out = sh(['git', 'apply', os.path.join(vdir, rb)], cwd=wt)
                if rc == 0:
                    meta['patch_rebased'] = rb
                    break
        if rc != 0:   # 2. a 3-way merge; conflicts leave the tree untouched
            rc, out = sh(['git', 'apply', '-3', os.path.join(vdir, 'patch.diff')], cwd=wt)
            meta['patch_applied_3way'] = rc == 0
            sh(['git', 'reset', '-q'], cwd=wt)
            if rc != 0:
                sh(['git', 'checkout', '--', '.'], cwd=wt)
        meta['patch_applies'] = rc == 0
        if rc != 0:
            print('patch does not apply:', out)
            meta['note'] = out[-500:]
        rc, out = sh(['go', 'build', '-modfile=' + modfile, './...'], cwd=wt)
        meta['builds'] = rc == 0
        # existing suite (demo files moved away for that run)
        for _, p in placed:
            os.rename(p, p + '.off')
        ok_suite = False
        rc, out = sh(['go', 'test', '-modfile=' + modfile, '-vet=off', '-count=1', './...'], cwd=wt, timeout=2400)
        ok_suite = rc == 0
        if not ok_suite:
            # internal/curves has wall-clock dependent PID tests that flake under load (also on the unchanged tree):
            # re-run only the failed packages, alone, a few times
            failed = re.findall(r'^FAIL[ \t]+(\S+)[ \t]', out, re.M)
            ok_suite = bool(failed) and '[build failed]' not in out
            for pkg in failed:
                good = False
                for attempt in range(5):
                    rc2, out2 = sh(['go', 'test', '-modfile=' + modfile, '-vet=off', '-count=1', '-p', '1', pkg], cwd=wt, timeout=1200)
                    if rc2 == 0:
                        good = True
                        break
                    out = out2
                ok_suite = ok_suite and good
            meta['suite_flaky_packages_rerun'] = failed
        meta['existing_suite_passes'] = ok_suite
        if not ok_suite:
            meta['suite_log_tail'] = out[-1500:]
        for _, p in placed:
            os.rename(p + '.off', p)
        withp = run_demo()
        meta['demo_with_patch_rc'] = [r[0] for r in withp]
        meta['demo_with_patch_tail'] = withp[0][1][-600:] if withp else ''
        meta['confirmed'] = bool(meta['patch_applies'] and meta['builds'] and ok_suite
                                 and all(r == 0 for r in meta['demo_without_patch_rc'])
                                 and any(r != 0 for r in meta['demo_with_patch_rc']))
        # ---- run the check against the changed tree (demo files removed: the check sees only the change)
        for _, p in placed:
            os.remove(p)
        for t, p in placed:
            if os.path.basename(os.path.dirname(p)).startswith('seeddemo_'):
                shutil.rmtree(os.path.dirname(p), ignore_errors=True)
        shutil.rmtree(coqcopy, ignore_errors=True)
        shutil.copytree(os.path.join(VERIF, 'coq'), coqcopy)
        e = dict(os.environ, VERIF_REPO=wt, VERIF_COQ=coqcopy, VERIF_SEED=os.environ.get('VERIF_SEED', '1'))
        t0 = time.time()
        tier = os.environ.get('SEED_TIER', 'quick')
        rc, out = sh([os.path.join(VERIF, 'check'), pid, '--tier', tier], cwd=VERIF, env=e, timeout=5400)
        meta['check'] = {'cmd': 'VERIF_REPO=<worktree with patch> VERIF_COQ=<private copy> ./check %s --tier %s' % (pid, tier),
                         'exit': rc, 'wall_s': round(time.time() - t0, 1),
                         'violation_lines': [l for l in out.splitlines() if l.startswith('VIOLATION') or l.startswith('KNOWN-FINDING')],
                         'summary': [l for l in out.splitlines() if l.startswith('[' + pid)]}
        meta['detected'] = rc == 1 and any(l.startswith('VIOLATION') for l in out.splitlines())
        meta['detected_with_failing_input'] = meta['detected'] and not any('no-failing-input-found' in l for l in out.splitlines() if l.startswith('VIOLATION'))
        # restore the evidence of the clean tree is the caller's business (evidence is rewritten by every run)
        dst = os.path.join(VERIF, 'seeded', name)
        os.makedirs(dst, exist_ok=True)
        if os.path.realpath(vdir) != os.path.realpath(dst):
            shutil.copy(os.path.join(vdir, 'patch.diff'), os.path.join(dst, 'patch.diff'))
            for rb in [f for f in os.listdir(vdir) if f.startswith('patch.rebased-on-')]:
                shutil.copy(os.path.join(vdir, rb), os.path.join(dst, rb))
            for d in demos:
                shutil.copy(os.path.join(vdir, d), os.path.join(dst, d))
        if readme:
            open(os.path.join(dst, 'README.md'), 'w').write(readme)
        m = re.search(r'(?i)(needs?|trigger|manifest)[^\n]*\n?[^\n]*', readme)
        meta['needs_to_manifest'] = (m.group(0)[:400] if m else '')
        json.dump(meta, open(os.path.join(dst, 'meta.json'), 'w'), indent=1)
        print(json.dumps({k: meta[k] for k in ('name', 'confirmed', 'detected', 'detected_with_failing_input')}), meta['check']['summary'], meta['check']['violation_lines'][:2])
    finally:
        subprocess.run(['git', '-C', '/repo', 'worktree', 'remove', '--force', wt], stdout=subprocess.DEVNULL, stderr=subprocess.DEVNULL)
        shutil.rmtree(wt, ignore_errors=True)
        shutil.rmtree(coqcopy, ignore_errors=True)
        for ext in ('.mod', '.sum'):
            try:
                os.remove(os.path.join(root, name + ext))
            except OSError:
                pass
    return 0


if __name__ == '__main__':
    sys.exit(main())
