#!/usr/bin/env python3
"""tools/try_driver.py <driver> <Drv.Module> [k=v ...]  -- build harness, run a driver, evaluate in Coq, print M/F summaries (debug aid)."""
import sys, os, json, shutil
sys.path.insert(0, os.path.join(os.path.dirname(os.path.abspath(__file__)), '..', 'lib'))
import core
drv, mod = sys.argv[1], sys.argv[2]
extra = sys.argv[3:]
d = os.path.join(core.WORK, 'try_%s_%d' % (drv, os.getpid())); os.makedirs(d, exist_ok=True)
try:
    b, notes, out = core.build_harness(d, drivers=[drv] + os.environ.get('EXTRA_DRV', '').split())
    print(notes)
    if not b:
        print(out[-4000:]); sys.exit(1)
    rc, txt, recs = core.run_driver(b, drv, d, int(os.environ.get('VERIF_SEED', '1')), os.environ.get('VERIF_TIER', 'quick'), extra=extra)
    print('driver rc', rc, 'records', len(recs), txt[-2000:])
    ok, M, F, K, log = core.coq_eval(mod, recs, d, drv, shard=int(os.environ.get('SHARD', '100')))
    print('coq ok', ok, 'M', len(M), M[:10], 'F', len(F), F[:10], 'K', dict(list(K.items())[:5]))
    print(log[-3000:])
    for tag, idxs in (('M', M[:2]), ('F', F[:2])):
        for i in idxs:
            print(tag, i, json.dumps(recs[i]['in'])[:1500]); print('   obs', json.dumps(recs[i]['obs'])[:1500])
            open(os.path.join(core.WORK, 'last_%s.json' % tag), 'w').write(json.dumps(recs[i]))
finally:
    if not os.environ.get("KEEP"): shutil.rmtree(d, ignore_errors=True)
    else: print("kept", d)
